import H2V.Lemmas.ConnFidPSid
/-
  C01 (stream layer) — message fidelity inside `proto/streams`: what the application submits on a stream
  reaches the codec (send side), and what the codec delivers reaches the application (receive side),
  exactly once, unmodified, in order, on the same stream.
  PROPERTY THEOREMS ONLY (proofs: H2V/Lemmas/ConnFidP*.lean; what is partial: H2V/Lemmas/ConnFidPNOTES.md).
  The codec half of C01 (framing, HPACK, chunking of transport reads/writes) is H2V/Props/C01.lean.

  Vocabulary (H2V/Lemmas/ConnFidPBase.lean, ConnFidPStep.lean, ConnFidPView.lean):
    `Refine es as`   the frame sequence `es` is `as` with DATA frames cut into consecutive pieces (lengths sum up,
                     END_STREAM only on the last piece, everything else kept in place);
    `toks`           what a frame sequence is for the receiving application: header blocks, DATA octets, END_STREAM;
    `sq s k`/`rq s k` `pending_send` / `pending_recv` of the slab entry with key `k` in the stream-layer state `s`;
    `Path P s s' tr` `s'` is reached from `s` by elementary steps with the labels `tr`; a step that is not silent does
                     to the queues exactly what its label says (push at the back, pop from the front, cut, …);
                     every model function is such a path (ConnFidPFn*.lean), `P` lists the labels it may produce;
    `pushed k tr`, `rcvd k tr`, `dlvd k tr`   frames queued on / events queued on / events taken off entry `k` along `tr`.
-/
namespace H2V.Props.C01Streams
open H2V H2V.Model H2V.Model.Conn H2V.Lemmas.ConnFidP

-- ===================================================================== what "the same message" means

/-- **Cutting DATA frames into pieces does not change the message**: a frame sequence and any refinement of it by
    splitting carry the same header blocks in the same places, the same number of DATA octets between
    them, and END_STREAM at the same octet position. -/
theorem splitting_carries_the_same_message (es as : List SFrame) (h : Refine es as) : toks es = toks as :=
  h.toks_eq

example : Refine [.headers false [], .data 1 false, .data 2 true] [.headers false [], .data 3 true] :=
  .same _ (.split 1 2 true (.refl _))

/-- … in particular the octet count, the END_STREAM count and the non-DATA frames (HEADERS, trailers,
    PUSH_PROMISE, RST_STREAM) with their order are the same. -/
theorem splitting_keeps_octets_end_and_headers (es as : List SFrame) (h : Refine es as) :
    dataLen es = dataLen as ∧ eosCount es = eosCount as ∧ nonData es = nonData as :=
  ⟨h.dataLen_eq, h.eosCount_eq, h.nonData_eq⟩

/-- **What `pop_frame` does to a DATA frame keeps the refinement**: if "emitted so far ++ still queued" refines
    what was accepted and the head of the queued part is a DATA frame of `sz` octets, then after `len ≤ sz`
    octets have gone out as a frame flagged END_STREAM only when nothing is left (`flag_eos = if sz > len
    then false else eos`) and the remainder `(sz - len, eos)` is back at the FRONT, the same holds. -/
theorem cutting_a_piece_off_keeps_refinement (E X A : List SFrame) (sz len : Nat) (eos : Bool)
    (h : Refine (E ++ .data sz eos :: X) A) (hl : len ≤ sz) :
    Refine (E ++ .data len (if sz > len then false else eos) ::
      ((if sz - len > 0 then [.data (sz - len) eos] else []) ++ X)) A :=
  h.pop_data hl

example : Refine ([.headers false []] ++ .data 5 true :: []) [.headers false [], .data 5 true] := .refl _

/-- a frame accepted at the back keeps it, too -/
theorem accepting_a_frame_keeps_refinement (E A : List SFrame) (f : SFrame) (h : Refine E A) :
    Refine (E ++ [f]) (A ++ [f]) := h.snoc f

-- ===================================================================== send side: the API calls

/-- **`send_data` queues its frame at the back of its own stream and touches no other queue.**
    The call is a path of elementary steps whose only non-silent labels are `push k (DATA len eos)` and
    removals of released entries; so for EVERY entry `j` that is not removed, `pending_send` afterwards is
    `pending_send` before followed by what was pushed — and what was pushed on `j` is nothing unless `j = k`,
    and then only `DATA(len, eos)` frames. -/
theorem send_data_queues_at_the_back_of_its_stream (s : Streams) (k len : Nat) (eos : Bool) :
    ∃ tr, Path (permSendData k len eos) s (s.refSendData k len eos).1 tr ∧
      (∀ j, wasCut j tr = false → sq (s.refSendData k len eos).1 j = sq s j ++ pushed j tr) ∧
      (∀ j f, f ∈ pushed j tr → j = k ∧ f = .data len eos) :=
  refSendData_queues s k len eos

/-- **`send_trailers` likewise**: only `HEADERS(END_STREAM, trailers)` at the back of entry `k`. -/
theorem send_trailers_queues_at_the_back_of_its_stream (s : Streams) (k : Nat) (f : List Hpack.Field) :
    ∃ tr, Path (permSendHeaders k true f) s (s.refSendTrailers k f).1 tr ∧
      (∀ j, wasCut j tr = false → sq (s.refSendTrailers k f).1 j = sq s j ++ pushed j tr) ∧
      (∀ j g, g ∈ pushed j tr → j = k ∧ g = .headers true f) :=
  refSendTrailers_queues s k f

/-- **`send_response` / `send_informational` likewise** (the head, 1xx heads before it). -/
theorem send_response_queues_at_the_back_of_its_stream (s : Streams) (k : Nat) (f : List Hpack.Field) (eos : Bool) :
    ∃ tr, Path (permSendHeaders k eos f) s (s.refSendResponse k f eos).1 tr ∧
      (∀ j, wasCut j tr = false → sq (s.refSendResponse k f eos).1 j = sq s j ++ pushed j tr) ∧
      (∀ j g, g ∈ pushed j tr → j = k ∧ g = .headers eos f) :=
  refSendResponse_queues s k f eos

/-- **`send_request`**: the only frame queued anywhere is the request head. -/
theorem send_request_queues_only_its_head (s : Streams) (b : Bool) (f : List Hpack.Field) (eos : Bool) (p : Option Nat) :
    ∃ tr, Path (permSendRequest eos f) s (s.sendRequest b f eos p).1 tr ∧
      (∀ j, wasCut j tr = false → sq (s.sendRequest b f eos p).1 j = sq s j ++ pushed j tr) ∧
      (∀ j g, g ∈ pushed j tr → g = .headers eos f) :=
  sendRequest_queues s b f eos p

example : sq ((Conn.init {}).streams.sendRequest false [] false none).1 0 = [.headers false []] := by decide

/-- **Resetting stream `k` discards queued frames of `k` only.**  `send_reset(k)` is a path whose only labels
    are cuts of entry `k`, RST_STREAM pushed on `k`, and removals of released entries: every other entry that
    is not removed keeps its `pending_send` exactly (the seeded defect "cancelling stream A drops the rest
    of stream B's chunk" changes the queue or the in-flight marker of B and breaks this). -/
theorem reset_discards_only_its_own_stream (s : Streams) (k : Nat) (r : Reason) :
    ∃ tr, Path (permReset k) s (s.refSendReset k r) tr ∧
      ∀ j, j ≠ k → wasCut j tr = false → sq (s.refSendReset k r) j = sq s j :=
  refSendReset_queues s k r

/-- **… and drops the DATA chunk sitting in the codec only if that chunk belongs to `k`**: the in-flight marker is
    unchanged, or it named `k` and is now `Drop` (then `reclaim_frame` discards the remainder — of `k`'s own chunk). -/
theorem reset_drops_only_its_own_chunk (s : Streams) (k : Nat) (r : Reason) :
    marker (s.refSendReset k r) = marker s ∨ (marker s = .dataFrame k ∧ marker (s.refSendReset k r) = .drop) :=
  refSendReset_marker s k r

/-- the seeded defect, made explicit: a `clear_queue` that ignores the key of the marker drops the chunk of stream B
    (key 1) when stream A (key 0) is reset; the model's does not -/
example : marker (S1.sB.clearQueue 0) = .dataFrame 1 ∧ marker (S1.buggyClearQueue S1.sB 0) = .drop :=
  S1.buggy_clear_queue_drops_other_streams_chunk_counterexample

-- ===================================================================== receive side

/-- **Receive FIFO, exactly once (any sequence of model steps).**  Along any path, for every entry `k` whose
    `pending_recv` was not cleared (`clear_recv_buffer`: the application dropped the `RecvStream`) and which was
    not removed: the events handed to the application, followed by the events still queued, are the
    events queued at the start followed by the events received since — same events, same order, none
    lost, none duplicated. -/
theorem received_events_are_delivered_in_order (P : Perm) (s s' : Streams) (tr : List Lbl) (h : Path P s s' tr) (k : Nat)
    (hl : rlost k tr = false) : dlvd k tr ++ rq s' k = rq s k ++ rcvd k tr :=
  h.recv_ledger k hl

/-- **`poll_data` hands out the payload at the head of the queue**, unmodified, and takes exactly it off. -/
theorem poll_data_hands_out_the_head (s : Streams) (k : Nat) (t : String) (p : Bytes) (b : Bool) (rest : List REvent)
    (h : (s.stream k).pendingRecv = .data p b :: rest) :
    s.recvPollData k t = (s.modStream k fun st => { st with pendingRecv := rest }, .data p b) :=
  recvPollData_head s k t p b rest h

/-- … and a payload it answers with WAS the head of the queue. -/
theorem poll_data_answer_was_the_head (s : Streams) (k : Nat) (t : String) (p : Bytes) (b : Bool)
    (h : (s.recvPollData k t).2 = .data p b) : ∃ rest, (s.stream k).pendingRecv = .data p b :: rest :=
  recvPollData_data h

/-- the call takes events off entry `k` only, queues none, and touches no other receive queue -/
theorem poll_data_touches_only_its_queue (s : Streams) (k : Nat) (t : String) :
    ∃ tr, Path (permPoll k) s (s.refPollData k t).1 tr ∧ (∀ j, rcvd j tr = []) ∧ (∀ j, j ≠ k → dlvd j tr = []) :=
  refPollData_queues s k t

/-- **A clean end of the body is reported only after END_STREAM.**  `poll_data` answers `None` only when the
    next queued event is not DATA (trailers — which only arrive with END_STREAM — or a head), or when the
    queue is empty and the receive half of the stream ended with END_STREAM (`is_recv_end_stream`; or the
    stream is `ReservedLocal` and never had a receive half). -/
theorem clean_end_only_after_end_stream (s : Streams) (k : Nat) (t : String) (h : (s.recvPollData k t).2 = .none) :
    (∃ e rest, (s.stream k).pendingRecv = e :: rest ∧ ∀ p b, e ≠ .data p b) ∨
    ((s.stream k).pendingRecv = [] ∧
      ((s.stream k).state.isRecvEndStream = true ∨ H2V.Lemmas.Comp.phase (s.stream k).state = .reservedLocal)) :=
  recvPollData_none h

/-- **A stream cut short never looks like a clean end.**  Once the queue is drained, a stream closed by an
    error before END_STREAM arrived — the peer's RST_STREAM with ANY code, `NO_ERROR` included, a local reset, a
    connection error — makes `poll_data` answer exactly that error. -/
theorem cut_short_is_an_error_not_an_end (s : Streams) (k : Nat) (t : String) (e : PErr)
    (hq : (s.stream k).pendingRecv = []) (he : (s.stream k).state.inner = .closed (.error e)) :
    (s.recvPollData k t).2 = .err e :=
  recvPollData_error s k t e hq he

/-- non-vacuity, and the scenario of the property text: response head, 3 octets of DATA, then the peer's
    `RST_STREAM(NO_ERROR)` mid-body.  The buffered payload is still delivered, then the error — not `None`. -/
def demo : Streams :=
  let s := ((Conn.init {}).streams.sendRequest false [] false none).1
  let s := s.popPendingOpen.1
  let s := (s.recvHeaders { sid := 1, eos := false, status := some [50, 48, 48] }).1
  let s := (s.recvData 1 [1, 2, 3] false none).1
  let s := (s.recvReset 1 0).1
  (Streams.recvPollResponse 5 s 0 "p").1

example : (demo.stream 0).pendingRecv = [.data [1, 2, 3] true] := by decide
example : (match (demo.refPollData 0 "b").2 with | .data p _ => decide (p = [1, 2, 3]) | _ => false) = true := by decide
example : ((demo.refPollData 0 "b").1.stream 0).pendingRecv = [] ∧
    ((demo.refPollData 0 "b").1.stream 0).state.inner = .closed (.error (.reset 1 0 .remote)) := by decide
example : (match ((demo.refPollData 0 "b").1.refPollData 0 "b").2 with
    | .err e => decide (e = .reset 1 0 .remote) | _ => false) = true := by decide

/-- **`poll_trailers` hands out the trailers at the head of the queue**, and a "no trailers" answer needs an empty
    queue and a receive half that ended with END_STREAM. -/
theorem poll_trailers_fifo_and_clean_end (s : Streams) (k : Nat) (t : String) :
    (∀ f rest, (s.stream k).pendingRecv = .trailers f :: rest →
      s.recvPollTrailers k t = (s.modStream k fun st => { st with pendingRecv := rest }, .trailers f)) ∧
    (∀ f, (s.recvPollTrailers k t).2 = .trailers f → ∃ rest, (s.stream k).pendingRecv = .trailers f :: rest) ∧
    ((s.recvPollTrailers k t).2 = .none → (s.stream k).pendingRecv = [] ∧
      ((s.stream k).state.isRecvEndStream = true ∨ H2V.Lemmas.Comp.phase (s.stream k).state = .reservedLocal)) :=
  ⟨fun f rest h => recvPollTrailers_head s k t f rest h, fun _ h => recvPollTrailers_trailers h,
   fun h => recvPollTrailers_none h⟩

-- ===================================================================== send side: EVERY HISTORY

/-  Vocabulary of the history theorems (H2V/Lemmas/ConnFidPInv.lean, ConnFidPHist.lean, ConnFidPMain.lean):
    `ApiStep s w s' w'`  one operation of the connection task or of an application handle on the stream layer `s` and the
                         codec `w`, with ARBITRARY arguments (47 constructors: the functions of `Streams` that ConnProto /
                         ConnDriver call, `poll_complete` with the codec threaded through, and `codec`: anything the codec does
                         that keeps the DATA frame it holds);  `Reach s w`: reached from a fresh stream layer by `ApiStep`s;
    `Hist s w g`         the same with the ghost log `g` of the history: `g.acc k` = message frames (HEADERS, DATA, PUSH_PROMISE)
                         queued on entry `k` ("accepted"; for each API call exactly its frame, see `AcceptDelta` below),
                         `g.emi k` = frames / DATA chunks taken off the queue of `k` by `pop_frame` for the codec ("emitted"),
                         `g.cut k` = the queue of `k` was cut (reset, error) or the entry removed,
                         `g.weird` = a stream still WAITING TO BE OPENED was reset while a DATA chunk of it sat in the codec
                         (impossible if `pending_open` streams are never in `pending_send`; that queue ↔ flag consistency held on
                         ~900 k operations of the real code, ConnInv, but is proved by no lemma family — NOTES §3);
    `held w`             the DATA frame the codec holds, `out s h k` = (unsent remainder of `k`'s chunk in the codec, if the
                         in-flight marker says so) ++ `pending_send` of `k`, `msg` = without RST_STREAM.  -/

/-- **Every reachable state is a history**: whatever the interleaving of peer frames, connection polls, codec
    progress and application calls (with any arguments), the pair (stream layer, codec) it leads to carries a ghost
    log for which the fidelity invariant below holds. -/
theorem every_reachable_state_is_a_history (s : Streams) (w : Writer) (r : Reach s w) : ∃ g, Hist s w g :=
  r.hist

/-- non-vacuity: a request with a body, written out through `poll_complete`, then reset by the application -/
example : Reach
    (let s := ((Conn.init {}).streams.sendRequest false [] false none).1
     let s := (s.refSendData 0 70000 true).1
     let s := (Streams.pollComplete 8 s {} {} "c").1
     s.refSendReset 0 8)
    (let s := ((Conn.init {}).streams.sendRequest false [] false none).1
     let s := (s.refSendData 0 70000 true).1
     (Streams.pollComplete 8 s {} {} "c").2.1) :=
  .step (.step (.step (.step (.init _ _ rfl rfl rfl) (.sendRequest _ _ false [] false none)) (.refSendData _ _ 0 70000 true))
    (.pollComplete _ _ 8 {} "c")) (.refSendReset _ _ 0 8)

/-- **SEND-SIDE FIDELITY, EVERY HISTORY.**  For every slab entry `k`:

        emitted so far  ++  (remainder of its chunk in the codec ++ still queued)  ++  D     REFINES     accepted,

    i.e. is the accepted frame sequence with DATA frames cut into consecutive pieces (lengths add up, END_STREAM only on
    the last piece of the frame that carried it, HEADERS / trailers / PUSH_PROMISE in place).  `D`, the discarded part, is a
    SUFFIX and is empty unless the stream was cut (reset / error) or removed: frames leave `pending_send` in FIFO order,
    nothing is emitted twice, nothing is skipped, nothing is reordered — for every split into frames, every window /
    frame-size configuration and every schedule. -/
theorem send_fidelity_in_every_history (s : Streams) (w : Writer) (g : Ghost) (h : Hist s w g) (hw : g.weird = false) (k : Nat) :
    ∃ D, Refine (g.emi k ++ msg (out s (held w) k) ++ D) (g.acc k) ∧ (g.cut k = false → D = []) :=
  h.fidelity hw k

/-- non-vacuity: a history (request head and a body frame accepted) whose `weird` flag is down -/
example : ∃ g, Hist ((((Conn.init {}).streams.sendRequest false [] false none).1).refSendData 0 10 true).1 {} g ∧
    g.weird = false := history_with_weird_down

/-- **What the peer is sent on a stream is a prefix of what the application submitted**, octet-wise: same header
    blocks, same DATA octet count between them, END_STREAM where it was — in particular a stream that is reset or cut
    short only ever carries a prefix, and END_STREAM is never written before everything in front of it. -/
theorem emitted_is_a_prefix_of_accepted (s : Streams) (w : Writer) (g : Ghost) (h : Hist s w g) (hw : g.weird = false) (k : Nat) :
    EmitsPrefix (g.emi k) (g.acc k) ∧ toks (g.emi k) <+: toks (g.acc k) :=
  h.emitted_prefix hw k

/-- **Nothing accepted is lost while the stream is not closed**: for an entry that exists and is not `Closed`,
    emitted ++ in flight ++ queued refines ALL of what was accepted (`D = []`).  (A queue is only ever cut on a closed
    entry — `cut` steps check it — and `Closed` is absorbing.) -/
theorem nothing_lost_while_stream_open (s : Streams) (w : Writer) (g : Ghost) (h : Hist s w g) (hw : g.weird = false)
    (k : Nat) (a : Stream) (ha : s.store.get? k = some a) (hc : a.state.isClosed = false) :
    Refine (g.emi k ++ msg (out s (held w) k)) (g.acc k) :=
  h.nothing_lost_while_open hw k a ha hc

/-- **What `send_data` adds to the accepted logs**: the history goes on, nothing is emitted by the call, and the accepted
    log of every entry only grows — by `DATA(len, eos)` frames, on entry `k` only.  (A closed stream refuses the
    call: that is why a frame is never accepted behind a discarded suffix.)  Likewise `send_trailers`, `send_response`,
    `send_informational` (`Hist.refSendTrailers` …) and `send_request` (on the entry it creates). -/
theorem send_data_extends_the_accepted_log (s : Streams) (w : Writer) (g : Ghost) (h : Hist s w g) (k len : Nat) (eos : Bool) :
    ∃ g', Hist (s.refSendData k len eos).1 w g' ∧ AcceptDelta g g' (fun j f => j = k ∧ f = .data len eos) :=
  h.refSendData k len eos

theorem send_request_extends_the_accepted_log (s : Streams) (w : Writer) (g : Ghost) (h : Hist s w g)
    (b : Bool) (f : List Hpack.Field) (eos : Bool) (p : Option Nat) :
    ∃ g', Hist (s.sendRequest b f eos p).1 w g' ∧
      AcceptDelta g g' (fun j x => j = s.store.nextKey ∧ x = .headers eos f) :=
  h.sendRequest b f eos p

/-- **The write loop keeps the invariant**: `Streams::poll_complete` — `poll_ready`, WINDOW_UPDATEs, `pop_pending_open`,
    `pop_frame` (whose DATA chunk is `min(frame, max_frame_size, stream capacity)`), `buffer_out`, `reclaim_frame` (the
    remainder goes back to the FRONT of the queue of ITS stream, or is dropped only if that stream was cut meanwhile),
    `flush` — maps a history to a history, whatever the transport accepts and whenever it blocks. -/
theorem poll_complete_keeps_history (s : Streams) (w : Writer) (n : Nat) (io : Tio) (t : String) (h : ∃ g, Hist s w g) :
    ∃ g, Hist (Streams.pollComplete n s w io t).1 (Streams.pollComplete n s w io t).2.1 g :=
  hist_pollComplete n s w io t h

-- ===================================================================== exactly once

/-- **`send_data`: `Ok` ⇒ exactly ONE frame was queued — `DATA(len, eos)`, at the back of the queue of `k` —, `Err` ⇒ none.**
    `Once k f s s'`: `s'` is reached from `s` by silent steps and removals of released entries, then the single step
    "append `f` to `pending_send` of `k`", then again silent steps and removals; `Tr permG`: silent steps and removals only.
    (`Once.queues` spells out what that means for the queue of every entry.) -/
theorem send_data_ok_queues_exactly_one_frame (s : Streams) (k len : Nat) (eos : Bool) :
    (∀ u, (s.refSendData k len eos).2 = .ok u → Once k (.data len eos) s (s.refSendData k len eos).1) ∧
    (∀ e, (s.refSendData k len eos).2 = .error e → Tr permG s (s.refSendData k len eos).1) :=
  ⟨fun _ h => (refSendData_accR s k len eos).ok h, fun _ h => (refSendData_accR s k len eos).err h⟩

example : ((((Conn.init {}).streams.sendRequest false [] false none).1).refSendData 0 10 true).2 = .ok () := by decide

/-- **likewise `send_trailers`, `send_response`, `send_informational`** (their HEADERS frame) -/
theorem send_headers_ok_queues_exactly_one_frame (s : Streams) (k : Nat) (f : List Hpack.Field) (eos : Bool) :
    ((∀ u, (s.refSendTrailers k f).2 = .ok u → Once k (.headers true f) s (s.refSendTrailers k f).1) ∧
     (∀ e, (s.refSendTrailers k f).2 = .error e → Tr permG s (s.refSendTrailers k f).1)) ∧
    ((∀ u, (s.refSendResponse k f eos).2 = .ok u → Once k (.headers eos f) s (s.refSendResponse k f eos).1) ∧
     (∀ e, (s.refSendResponse k f eos).2 = .error e → Tr permG s (s.refSendResponse k f eos).1)) ∧
    ((∀ u, (s.refSendInformationalHeaders k f).2 = .ok u → Once k (.headers false f) s (s.refSendInformationalHeaders k f).1) ∧
     (∀ e, (s.refSendInformationalHeaders k f).2 = .error e → Tr permG s (s.refSendInformationalHeaders k f).1)) :=
  ⟨⟨fun _ h => (refSendTrailers_accR s k f).ok h, fun _ h => (refSendTrailers_accR s k f).err h⟩,
   ⟨fun _ h => (refSendResponse_accR s k f eos).ok h, fun _ h => (refSendResponse_accR s k f eos).err h⟩,
   ⟨fun _ h => (refSendInformationalHeaders_accR s k f).ok h, fun _ h => (refSendInformationalHeaders_accR s k f).err h⟩⟩

/-- **`Recv::recv_data` queues the payload it was given — unmodified, with `is_budgeted = !eos` — at most once, at the
    back of the receive queue of its stream; nothing when it fails** (a frame for a locally reset stream, or after the
    `RecvStream` was dropped, is accounted for flow control and not queued: the `Tr permG` alternative). -/
theorem recv_data_queues_its_payload_at_most_once (s : Streams) (k : Nat) (p : Bytes) (eos : Bool) (pad : Option Nat) :
    (∀ u, (s.recvRecvData k p eos pad).2 = .ok u →
      Tr permG s (s.recvRecvData k p eos pad).1 ∨ OnceR k (.data p (!eos)) s (s.recvRecvData k p eos pad).1) ∧
    (∀ e, (s.recvRecvData k p eos pad).2 = .error e → Tr permG s (s.recvRecvData k p eos pad).1) :=
  ⟨fun _ h => (recvRecvData_accRR s s k p eos pad (Tr.refl _ _)).ok h,
   fun _ h => (recvRecvData_accRR s s k p eos pad (Tr.refl _ _)).err h⟩

/-- **What `pop_frame` hands to the codec is what it took off the head of a queue.**  `pop_frame` is a run of pops (each
    recorded in full in the emitted log), cuts of streams whose reset is scheduled, and removals; when it returns
    `DATA(len, flag_eos, { key, rest, eos })`, the last frame recorded for `key` is `DATA(len + rest, eos)` — the whole queued
    frame —, `flag_eos = eos` exactly when `rest = 0`, and `len ≤ max_len`; when it returns HEADERS / PUSH_PROMISE, that
    frame (same END_STREAM flag, same fields) is the last frame recorded for its stream. -/
theorem pop_frame_hands_out_what_it_took_off_the_queue (n m : Nat) (s : Streams) (g : Ghost) :
    ∃ g', Run permPop s g (Streams.popFrame n s m).1 g' ∧ OutLast g' m (Streams.popFrame n s m).2 :=
  popFrame_last2 n m s g

/-- **Observation (by design, not covered by "exactly once"): `poll_response` discards interim 1xx heads still queued.**
    An interim response is delivered by `poll_informational` only if that is polled before the final response is
    taken (witness: `103` then `200` queued; after `poll_response` the `103` is gone). -/
theorem interim_responses_need_poll_informational_first :
    (O1.c3.stream 0).pendingRecv = [.informational [49, 48, 51] [], .headers [50, 48, 48] []] ∧
    ((Streams.recvPollResponse 5 O1.c3 0 "p").1.stream 0).pendingRecv = [] :=
  ⟨O1.both_queued, O1.interim_response_discarded_by_poll_response.1⟩

/-- **A stream whose queue is drained has emitted everything it accepted — as the same message.**  In a history, for an
    entry that was not cut, with nothing left in its queue and nothing of it in the codec: the emitted log refines the
    accepted log, so the peer was sent the accepted header blocks, DATA octets and END_STREAM, all of them, in order. -/
theorem drained_stream_has_emitted_everything (s : Streams) (w : Writer) (g : Ghost) (h : Hist s w g) (hw : g.weird = false)
    (k : Nat) (hc : g.cut k = false) (ho : out s (held w) k = []) :
    Refine (g.emi k) (g.acc k) ∧ toks (g.emi k) = toks (g.acc k) :=
  h.drained hw k hc ho

/-- **Errors never invent an END_STREAM.**  After the peer's RST_STREAM (any code), a connection error or the end of
    the transport, the receive half of a stream counts as "ended with END_STREAM" exactly if it did before
    (`State::recv_reset`, `handle_error`, `recv_eof`; H2V/Lemmas/CompState.lean) — together with
    `clean_end_only_after_end_stream`: a body cut short by any of them is never reported as complete. -/
theorem errors_never_invent_an_end_of_stream (x : State) (sid : Nat) (r : Reason) (q : Bool) (e : PErr) :
    (x.recvReset sid r q).isRecvEndStream = x.isRecvEndStream ∧
    (x.handleError e).isRecvEndStream = x.isRecvEndStream ∧
    x.recvEof.isRecvEndStream = x.isRecvEndStream :=
  ⟨H2V.Lemmas.Comp.recvReset_eos_iff x sid r q, H2V.Lemmas.Comp.handleError_eos_iff x e, H2V.Lemmas.Comp.recvEof_eos_iff x⟩

/-- **RECEIVE-SIDE FIDELITY, EVERY REACHABLE STATE.**  Whatever the interleaving of peer frames, polls and application
    calls that led to `(s, w)`: there is ONE label sequence `tr` explaining the whole history of the stream layer (every
    `ApiStep` is a path of elementary steps; `rpush k e` = event `e` queued at the BACK of `pending_recv` of `k` — by
    `recv_headers` / `recv_data` / `recv_trailers` / `recv_push_promise`, each its own event, `recv_data` at most once —,
    `rpop k e` = event taken off its HEAD by a receive handle — what `poll_data` / `poll_trailers` answer with is that
    head), and for every entry whose receive queue was never cleared (`clear_recv_buffer`: the `RecvStream` was
    dropped) and that was not removed:   handed out so far ++ still queued = everything ever queued — exactly once,
    unmodified, in arrival order. -/
theorem received_events_are_delivered_in_order_in_every_history (s : Streams) (w : Writer) (r : Reach s w) :
    ∃ s0 tr, Path permAll s0 s tr ∧ ∀ k, rlost k tr = false → dlvd k tr ++ rq s k = rcvd k tr :=
  r.recv_ledger

/-- **Exactly once, in the history: `send_data` answering `Ok` extends the accepted log of its stream by exactly
    `[DATA(len, eos)]`** — not at all only when the key names no entry at that moment (a dangling handle; a stream with a
    live handle is never removed, C08) —, touches no other accepted log and no emitted log, and the result is again a
    history.  Likewise `send_trailers` and `send_response` (`Hist.refSendTrailers_exact`, `Hist.refSendResponse_exact`).
    With `send_fidelity_in_every_history`: every accepted frame is emitted exactly once, as consecutive pieces, or discarded
    with everything behind it when the stream is reset. -/
theorem send_data_ok_extends_the_accepted_log_by_exactly_its_frame (s : Streams) (w : Writer) (g : Ghost) (h : Hist s w g)
    (hw : g.weird = false) (k len : Nat) (eos : Bool) (u : Unit) (hr : (s.refSendData k len eos).2 = .ok u) :
    ∃ g', Hist (s.refSendData k len eos).1 w g' ∧ g'.emi = g.emi ∧ (∀ j, j ≠ k → g'.acc j = g.acc j) ∧
      (g'.acc k = g.acc k ++ [.data len eos] ∨ g'.acc k = g.acc k) :=
  h.refSendData_exact hw k len eos u hr

/-- **The frame `pop_frame` hands to the codec carries the stream id of the entry whose queue it came from.**  As
    `pop_frame_hands_out_what_it_took_off_the_queue`, with the id: for `DATA(len, flag_eos, { key, sid, rest, eos })` the entry
    `key` of the state `pop_frame` started in has stream id `sid`; a HEADERS / PUSH_PROMISE frame labelled `sid` is the last
    frame recorded as emitted for an entry `k` whose stream id is `sid` (`IdAt s k sid`: under the proviso that `k` is a key
    the store has handed out, `k < next_key` — discharged in every history by the next theorem).  So what was accepted on a
    stream is never emitted under the id of another stream. -/
theorem pop_frame_labels_the_frame_with_the_id_of_its_stream (n m : Nat) (s : Streams) (g : Ghost) :
    ∃ g', Run permPop s g (Streams.popFrame n s m).1 g' ∧ OutSid s g' m (Streams.popFrame n s m).2 :=
  popFrame_sid n m s g

/-- … **in every history** (codec holding no DATA frame, which is when `pop_frame` is called): the entry exists in the
    state `pop_frame` started in and has the stream id the frame is labelled with (`HasId`). -/
theorem in_every_history_frames_leave_under_the_id_of_their_stream (s : Streams) (w : Writer) (g : Ghost) (h : Hist s w g)
    (hh : held w = none) (n m : Nat) :
    ∃ g', Run permPop s g (Streams.popFrame n s m).1 g' ∧
      (g'.weird = false → OutSidH s g' m (Streams.popFrame n s m).2) :=
  h.popFrame_sid hh n m

end H2V.Props.C01Streams

#print axioms H2V.Props.C01Streams.splitting_carries_the_same_message
#print axioms H2V.Props.C01Streams.splitting_keeps_octets_end_and_headers
#print axioms H2V.Props.C01Streams.cutting_a_piece_off_keeps_refinement
#print axioms H2V.Props.C01Streams.accepting_a_frame_keeps_refinement
#print axioms H2V.Props.C01Streams.send_data_queues_at_the_back_of_its_stream
#print axioms H2V.Props.C01Streams.send_trailers_queues_at_the_back_of_its_stream
#print axioms H2V.Props.C01Streams.send_response_queues_at_the_back_of_its_stream
#print axioms H2V.Props.C01Streams.send_request_queues_only_its_head
#print axioms H2V.Props.C01Streams.reset_discards_only_its_own_stream
#print axioms H2V.Props.C01Streams.received_events_are_delivered_in_order
#print axioms H2V.Props.C01Streams.poll_data_hands_out_the_head
#print axioms H2V.Props.C01Streams.poll_data_answer_was_the_head
#print axioms H2V.Props.C01Streams.poll_data_touches_only_its_queue
#print axioms H2V.Props.C01Streams.clean_end_only_after_end_stream
#print axioms H2V.Props.C01Streams.cut_short_is_an_error_not_an_end
#print axioms H2V.Props.C01Streams.poll_trailers_fifo_and_clean_end
#print axioms H2V.Props.C01Streams.every_reachable_state_is_a_history
#print axioms H2V.Props.C01Streams.send_fidelity_in_every_history
#print axioms H2V.Props.C01Streams.emitted_is_a_prefix_of_accepted
#print axioms H2V.Props.C01Streams.nothing_lost_while_stream_open
#print axioms H2V.Props.C01Streams.send_data_extends_the_accepted_log
#print axioms H2V.Props.C01Streams.send_request_extends_the_accepted_log
#print axioms H2V.Props.C01Streams.poll_complete_keeps_history
#print axioms H2V.Props.C01Streams.send_data_ok_queues_exactly_one_frame
#print axioms H2V.Props.C01Streams.send_headers_ok_queues_exactly_one_frame
#print axioms H2V.Props.C01Streams.recv_data_queues_its_payload_at_most_once
#print axioms H2V.Props.C01Streams.pop_frame_hands_out_what_it_took_off_the_queue
#print axioms H2V.Props.C01Streams.interim_responses_need_poll_informational_first
#print axioms H2V.Props.C01Streams.drained_stream_has_emitted_everything
#print axioms H2V.Props.C01Streams.errors_never_invent_an_end_of_stream
#print axioms H2V.Props.C01Streams.reset_drops_only_its_own_chunk
#print axioms H2V.Props.C01Streams.received_events_are_delivered_in_order_in_every_history
#print axioms H2V.Props.C01Streams.send_data_ok_extends_the_accepted_log_by_exactly_its_frame
#print axioms H2V.Props.C01Streams.pop_frame_labels_the_frame_with_the_id_of_its_stream
#print axioms H2V.Props.C01Streams.in_every_history_frames_leave_under_the_id_of_their_stream
