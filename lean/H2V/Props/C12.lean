import H2V.Model.CodecRead
import H2V.Model.CodecWrite
import H2V.Spec.Frame
/-
  C12 — frame codec: parse(serialize(f)) = f under any I/O chunking, within size limits.
  Property theorems only.
-/
namespace H2V.Props.C12
open H2V H2V.Model.Frame

/-- the 9-octet frame header written by `Head::encode` is read back by `Head::parse` (and by the
    RFC 9113 §4.1 layout: 24-bit length, type, flags, reserved bit + 31-bit stream identifier) -/
theorem head_roundtrip (h : Head) (len : Nat) (hk : h.kind < 256) (hf : h.flag < 256)
    (hs : h.sid < 2 ^ 31) (hl : len < 2 ^ 24) :
    Head.parse (h.encode len) = h ∧ rd24 (h.encode len) = len ∧
    Spec.Frame.u24 (h.encode len) = len ∧ Spec.Frame.u31 ((h.encode len).drop 5) = h.sid := by
  obtain ⟨k, f, s⟩ := h
  simp only [Head.encode, Head.parse, be24, be32, rd24, rd32, parseStreamId, Spec.Frame.u24, Spec.Frame.u31,
    Spec.Frame.u32, List.cons_append, List.nil_append, List.getD_cons_succ, List.getD_cons_zero, List.drop_succ_cons,
    List.drop_zero, Head.mk.injEq] at *
  refine ⟨⟨trivial, trivial, ?_⟩, ?_, ?_, ?_⟩ <;> omega

end H2V.Props.C12
