import H2V.Model.CodecRead
import H2V.Model.CodecWrite
import H2V.Spec.Frame
import H2V.Lemmas.Codec
/-
  C12 — frame codec: parse(serialize(f)) = f under any I/O chunking, within size limits.
  Property theorems only (lemmas: `H2V/Lemmas/Codec*.lean`).
-/
namespace H2V.Props.C12
open H2V H2V.Model.Frame H2V.Model.CodecRead H2V.Model.CodecWrite H2V.Lemmas.Codec

/-- the 9-octet frame header written by `Head::encode` is read back by `Head::parse` (and by the
    RFC 9113 §4.1 layout: 24-bit length, type, flags, reserved bit + 31-bit stream identifier) -/
theorem head_roundtrip (h : Head) (len : Nat) (hk : h.kind < 256) (hf : h.flag < 256)
    (hs : h.sid < 2 ^ 31) (hl : len < 2 ^ 24) :
    Head.parse (h.encode len) = h ∧ rd24 (h.encode len) = len ∧
    Spec.Frame.u24 (h.encode len) = len ∧ Spec.Frame.u31 ((h.encode len).drop 5) = h.sid := by
  obtain ⟨k, f, s⟩ := h
  simp only [Head.encode, Head.parse, be24, be32, rd24, rd32, parseStreamId, Spec.Frame.u24, Spec.Frame.u31,
    Spec.Frame.u32, List.cons_append, List.nil_append, List.getD_cons_succ, List.getD_cons_zero, List.drop_succ_cons,
    List.drop_zero, Head.mk.injEq] at *
  refine ⟨⟨trivial, trivial, ?_⟩, ?_, ?_, ?_⟩ <;> omega

/-- **serialise → independent RFC 9113 parser**: every DATA frame h2 emits parses back to the same
    frame (all stream ids, END_STREAM, payloads of every length below 2^24) -/
theorem parse_serialize_data (sid : Nat) (payload : Bytes) (eos : Bool) (pad : Option Nat)
    (hs0 : sid ≠ 0) (hs : sid < 2 ^ 31) (hp : payload.length < 2 ^ 24) :
    ∃ bytes, encodeSimple (.data sid payload eos pad) = some bytes ∧
      Spec.Frame.parse bytes = some (.ok (.data sid eos none payload)) :=
  parse_encode_data sid payload eos pad hs0 hs hp

/-- … and the same for PING (all payloads, ack or not) -/
theorem parse_serialize_ping (ack : Bool) (p : Bytes) (hp : p.length = 8) :
    ∃ bytes, encodeSimple (.ping ack p) = some bytes ∧ Spec.Frame.parse bytes = some (.ok (.ping ack p)) :=
  parse_encode_ping ack p hp

/-- **header blocks**: HEADERS / PUSH_PROMISE followed by the CONTINUATION chain, as h2 splits them
    under the peer's max frame size, parse (with the independent parser) into one head frame plus
    CONTINUATION frames on the same stream, END_HEADERS only on the last, whose fragments
    concatenate to the HPACK block, and NO frame payload exceeds the limit. -/
theorem parse_serialize_header_block (fuel maxFrame kind flags sid : Nat) (pre hpack : Bytes) (F maxSize : Nat)
    (hpre : pre.length < maxFrame) (hmax : maxFrame < 2 ^ 24) (hs0 : sid ≠ 0) (hs : sid < 2 ^ 31)
    (hfuel : hpack.length < fuel) (hF : fuel < F) (hms : maxFrame ≤ maxSize) :
    ∃ frag0 frags, frag0 ++ frags.flatten = hpack ∧ pre.length + frag0.length ≤ maxFrame ∧
      (∀ f ∈ frags, f.length ≤ maxFrame) ∧
      Spec.Frame.frames F maxSize (splitBlock fuel maxFrame kind flags sid pre hpack) =
        (Spec.Frame.ofParts kind (if frags.isEmpty then flags else flags - 4) sid (pre ++ frag0)
          :: (contFrames sid frags).map .ok, []) :=
  parse_split_block fuel maxFrame kind flags sid pre hpack F maxSize hpre hmax hs0 hs hfuel hF hms

/-- **wire → same value however the transport splits reads**: for EVERY reader state and EVERY
    list of chunks, the frames/errors delivered and the death of the stream depend only on the
    concatenation of the chunks (one octet at a time included). -/
theorem reader_chunk_invariance (r : Reader) (chunks : List Bytes) (hq : chunks = [] → Quiescent r) :
    (feedAll r chunks).2 = (feedAll r [chunks.flatten]).2 :=
  feed_chunks r chunks hq

/-- what the real decoder delivers for frames of the fixed-shape types is what the RFC parser says -/
theorem decode_agrees_with_rfc (r r' : Reader) (bytes : Bytes) (f : Model.Frame.Frame)
    (hlen : 9 ≤ bytes.length) (hcut : bytes.length = 9 + rd24 bytes)
    (hk : (Head.parse bytes).kind ∈ [0, 2, 3, 4, 6, 7, 8])
    (h : decodeFrame r bytes = (r', .frame f))
    (hx : ¬ ((Head.parse bytes).kind = 3 ∧ (Head.parse bytes).sid = 0)) :
    ∃ f', Corr f f' ∧ Spec.Frame.parse bytes = some (.ok f') :=
  decodeFrame_sound_parse r r' bytes f hlen hcut hk h hx

/-- **partial writes never duplicate, drop or reorder bytes**: over ANY sequence of `buffer` and
    `flush` calls, with ANY script of `poll_write` answers (short writes, Pending, zero), the octets
    accepted by the transport followed by what is still pending equal what was pending before
    followed by the serialisations of the buffered frames, in order. -/
theorem writer_bytes_exact (ops : List Lemmas.Codec.Op) (w : Writer) (hwf : WF w)
    (hct : 0 < w.chainThreshold) (hmf : 4 < w.maxFrame) :
    (run w ops).2.1 ++ pendingBytes (run w ops).1 = pendingBytes w ++ (run w ops).2.2 :=
  Lemmas.Codec.writer_bytes_exact ops w hwf hct hmf

/-- **closing never drops bytes**: over any number of `shutdown` polls with ANY write scripts, the
    transport's `poll_shutdown` is reached only after the transport has accepted exactly the octets
    that were pending when closing started, all of them and in order. -/
theorem closing_drops_nothing (fuel : Nat) (scs : List (List (Option Nat))) (w : Writer) (hwf : WF w)
    (hmf : 0 < w.maxFrame) (hfuel : enoughFuel fuel w)
    (h : (Writer.shutdownRun fuel w false scs []).2 = true) :
    (Writer.shutdownRun fuel w false scs []).1 = pendingBytes w := by
  simpa using shutdownRun_complete fuel scs w [] hwf hmf hfuel h

/-- **no emitted DATA payload exceeds the peer's max frame size**: a larger one is refused -/
theorem tx_within_max_frame_size (w w' : Writer) (sid : Nat) (payload : Bytes) (eos : Bool) (pad : Option Nat)
    (h : w.buffer (.simple (.data sid payload eos pad)) = (w', .ok)) : payload.length ≤ w.maxFrame :=
  tx_data_within_max_frame_size w w' sid payload eos pad h

/-- **a frame larger than the locally advertised limit is rejected with FRAME_SIZE_ERROR before its
    payload is buffered**: as soon as the three length octets are there, whatever the chunking -/
theorem rx_oversize_rejected (r : Reader) (hb : AtBoundary r) (chunks : List Bytes)
    (h3 : 3 ≤ chunks.flatten.length) (hbig : rd24 chunks.flatten > r.maxFrameLen) :
    (feedAll r chunks).2 = ([.err (.goAway FRAME_SIZE_ERROR "")], true) :=
  Lemmas.Codec.rx_oversize_rejected r hb chunks h3 hbig

/-- **serialised frames cut into arbitrary chunks are delivered as exactly those frames** -/
theorem wire_roundtrip_any_chunking (maxLen : Nat) (l : List (Bytes × Model.Frame.Frame))
    (hl : ∀ x ∈ l, FrameBytes maxLen x.1 x.2)
    (r : Reader) (hb : AtBoundary r) (hpb : r.partialBlk = none) (hm : r.maxFrameLen = maxLen)
    (c : Bytes) (cs : List Bytes) (hc : (c :: cs).flatten = (l.map (·.1)).flatten) :
    feedAll r (c :: cs) = (r, l.map (fun x => Item.frame x.2), false) :=
  feed_wire_chunks maxLen l hl r hb hpb hm c cs hc

end H2V.Props.C12
