import H2V.Lemmas.ConnDrainPRead
import H2V.Lemmas.ConnDrainPLoop
import H2V.Lemmas.ConnDrainPTurn
import H2V.Lemmas.ConnDrainPParked
import H2V.Lemmas.ConnDrainPReach
import H2V.Lemmas.ConnDrainPFindings
import H2V.Lemmas.ConnDrainPCapF
/-
  C06 (progress, no lost wake-up) — the gaps left open by `H2V/Props/C06.lean` (ConnWakeP family):
  what a completed poll of the connection leaves behind, and who is woken when.
  Property theorems only; lemmas in `H2V/Lemmas/ConnDrainP*.lean` (see ConnDrainPNOTES.md).

  Vocabulary.  `PInv s` = the invariants the proofs need of a stream-layer state `s`: the send-flow safety
  invariant and `u32` requests of the ConnFlowP family (`SafeInv`, `ReqOk`) and queue ↔ link-flag consistency
  of `pending_send` / `pending_capacity` (ConnCountsP's `QOK`).  They hold in every reachable state in which no
  `assert!` of the real code has fired (`drain_invariants_hold_when_reachable`).  `RangeOK s` = the connection
  receive window and its available part are `i32` values (ConnRecvP: every reachable state).
-/
namespace H2V.Props.C06Drain
open H2V H2V.Model H2V.Model.Conn H2V.Lemmas.ConnDrainP

/-- **Read side: `poll_next` `Pending` ⇒ the transport holds the read waker.**  When the codec has no
    complete frame, no read error and no EOF, `Codec::poll_next` answers `Pending` only after storing the
    polling task's waker in the transport's read half (which the harness wakes when octets arrive).
    `hf`: the fuel covers the octets still to be scanned — `poll2` passes `buffered + unread + 2`, see the
    example. -/
theorem poll_next_pending_registers_read_waker (fuel : Nat) (c c' : Codec) (tag : String)
    (hf : c.r.buf.length + c.io.rd.length < fuel)
    (h : pollNext fuel c tag = (c', .pending)) : c'.io.readWaker = some tag :=
  pollNext_pending_parks fuel c c' tag hf h

/-- non-vacuity: a fresh codec with nothing to read is `Pending` and parks the tag -/
example : (match (pollNext 2 ({} : Codec) "c").2 with | .pending => true | _ => false) = true ∧
    (pollNext 2 ({} : Codec) "c").1.io.readWaker = some "c" := by decide

/-- **The invariants used below hold in every reachable state.**  For a stream-layer state reachable through
    the `Streams` API from a fresh connection — in the sense of ConnFlowP (`Reach`: any sequence of the 44 API
    functions, decoder-bounded increments) and of ConnCountsP (`Reach`) — in which the model recorded no
    `assert!`/dangling-key panic, `PInv` holds. -/
theorem drain_invariants_hold_when_reachable (s : Streams) (h1 : H2V.Lemmas.ConnFlowP.Reach s)
    (h2 : H2V.Lemmas.ConnCountsP.Reach s) (hp : s.panicked = none) : PInv s :=
  ⟨h1.safe, h1.reqOk, h2.qok hp _ (by decide), h2.qok hp _ (by decide)⟩

/-- non-vacuity: `exReq` (ConnDrainPFindings.lean) = `send_request` on a fresh client; it satisfies `PInv` (`exReq_pinv`) -/
example : PInv exReq ∧ exReq.prio.pendingOpen = [0] ∧ RangeOK exReq := ⟨exReq_pinv, by decide, by unfold RangeOK; decide⟩

/-- **The model's fuel for `pop_frame` suffices** (no fuel hypothesis is needed below).  In a state satisfying
    `PInv`, `Prioritize::pop_frame` — run with the fuel `popFrameFuel s` that `buffer_pending` hands it —
    answers `None` only because `pending_send` is empty: the model's loop never stops early where the real,
    unbounded loop would go on.  Proof: a measure (frames queued + 2 per stream linked in `pending_send` whose
    visit does not return at once + 2 per stream linked in `pending_capacity`) drops at every `continue`,
    including the `continue` after `reclaim_all_capacity`, which can move streams INTO `pending_send`.
    (With the earlier fuel `2·len+2` this was false: dead PUSH_PROMISE frames, see ConnDrainPNOTES.) -/
theorem pop_frame_fuel_suffices (s s' : Streams) (maxLen : Nat) (h : PInv s)
    (hr : Streams.popFrame (Streams.popFrameFuel s) s maxLen = (s', none)) (hp : s'.panicked = none) :
    s'.prio.pendingSend = [] :=
  popFrame_none_drains h hr hp

example : (Streams.popFrame (Streams.popFrameFuel exReq) exReq 16384).2 = none := by decide

/-- **`Prioritize::buffer_pending` answers "complete" only with `pending_send` empty.**  Whatever the writer
    (its capacity is re-checked before every frame), from every state satisfying `PInv`: when the loop ends
    with `BufferStatus::Complete`, no stream is left scheduled for sending, and `PInv` still holds. -/
theorem buffer_pending_complete_means_nothing_to_send (n : Nat) (s s' : Streams) (w w' : Writer) (h : PInv s)
    (hr : Streams.prioBufferPendingLoop n s w = (s', w', .complete)) (hp : s'.panicked = none) :
    s'.prio.pendingSend = [] ∧ PInv s' :=
  prioLoop_complete n s w s' w' h hr hp

/-- non-vacuity: on `exReq` the loop writes the HEADERS frame and answers "complete" -/
example : (Streams.prioBufferPendingLoop 5 exReq (Conn.init {}).codec.w).2.2 = .complete := by decide

/-- **The connection's poll drains everything that can be written.**  `Streams::poll_complete` answers `Ready`
    only in a state in which
      * `prioritize.pending_send` is empty (no stream is scheduled for sending),
      * `pending_window_updates` is empty (no stream WINDOW_UPDATE owed),
      * `flow.unclaimed_capacity()` of the connection is `None` (no connection WINDOW_UPDATE owed),
      * the codec's write buffer is flushed (`next = None`, buffer empty),
      * the polling task is registered in `Actions.task` (so every later handle operation that queues work
        wakes it: `H2V.Props.C06`, statements (D)),
    for every writer / transport behaviour (partial writes, byte budgets), every fuel, every state satisfying
    `PInv` and `RangeOK`; and `PInv`, `RangeOK` hold again afterwards.  `hp`: the model recorded no panic.
    NOT claimed here: `pending_open` (see `pending_open_leftover_counterexample`) and `pending_capacity`
    (ConnDrainPNOTES). -/
theorem poll_complete_ready_means_drained (n : Nat) (s s' : Streams) (w w' : Writer) (io io' : Tio) (tag : String)
    (h : PInv s) (hr : RangeOK s)
    (hc : Streams.pollComplete n s w io tag = (s', w', io', .ready)) (hp : s'.panicked = none) :
    Drained tag s' w' ∧ PInv s' ∧ RangeOK s' :=
  pollComplete_ready_drained n s w io tag s' w' io' h hr hc hp

/-- non-vacuity: polling the state with the queued request writes the HEADERS frame and ends `Ready` -/
example : (Streams.pollComplete 5 exReq (Conn.init {}).codec.w (Conn.init {}).codec.io "c").2.2.2 = .ready ∧
    (Streams.pollComplete 5 exReq (Conn.init {}).codec.w (Conn.init {}).codec.io "c").1.panicked = none ∧
    (Streams.pollComplete 5 exReq (Conn.init {}).codec.w (Conn.init {}).codec.io "c").2.2.1.tx.length = 3 := by
  decide

/-- **`Connection::poll_ready`: `Pending` ⇒ the write waker is registered; `Ready(Ok)` ⇒ nothing of its slots is
    owed.**  `poll_ready` (pending PONG, pending PING, SETTINGS ACK + local SETTINGS, pending refusal) answers
    `Pending` only after the transport took the connection task's waker for writing (`WriteParked`), and
    `Ready(Ok)` only with `pending_pong = None`, the PING slot idle (shutdown PING sent; user PING sent or the
    connection task registered in `ping_task`), `settings.remote = None`, no local SETTINGS left to send, and
    `refused = None`.  `hc`: the write buffer's capacity is at least `chain_threshold + 9` (`CapOK`: true from
    `Conn.init` on and kept by everything that gets the writer — lemmas `CapOK.*`). -/
theorem poll_ready_pending_parked_ready_done (c : Conn) :
    (c.pollReady.2 = .pending → CapOK c.codec.w → WriteParked c.pollReady.1) ∧
    (c.pollReady.2 = .ok → ReadyDone c.pollReady.1) :=
  ⟨(pollReady_spec c).2.2.1, (pollReady_spec c).2.2.2⟩

example : CapOK (Conn.init {}).codec.w ∧ (Conn.init {}).pollReady.2 matches .ok := by
  refine ⟨by unfold CapOK; decide, by decide⟩

/-- **`Connection::poll2` answers `Pending` only with the connection task parked**: on the transport's write
    waker (some `poll_ready` step or the GOAWAY could not be buffered), or on the read waker with the GOAWAY
    slot and every slot of `poll_ready` empty — for every input, fuel and state with a sane write buffer. -/
theorem poll2_pending_is_parked (n : Nat) (c c' : Conn) (hc : CapOK c.codec.w)
    (h : Conn.poll2 n c = (c', .pending)) (hp : c'.streams.panicked = none) :
    ConnParked c' ∧ CapOK c'.codec.w ∧ c'.cx = c.cx :=
  poll2_pending n c c' hc h hp

example : (Conn.poll2 10 (Conn.init {})).2 matches .pending := by decide

/-- **One turn of `Connection::poll` (state `Open`) leaves the connection task parked and nothing unwritten.**
    When `poll2` answered `Pending` (state `c1`) and `poll_complete` then answers `Pending` or `Ready`, the
    connection task is parked on the write waker, or (`Settled`) on the read waker AND in `Actions.task` with:
    GOAWAY / PONG / PING / SETTINGS / refusal slots empty, `pending_send` empty, no stream or connection
    WINDOW_UPDATE owed, the write buffer flushed.  This closes the "Pending ⇒ parked" statement (D) of
    `H2V.Props.C06` with "… and nothing writable is left".  `hi`/`hr`: `PInv`/`RangeOK` when `poll_complete`
    starts (hold in every reachable state, see `drain_invariants_hold_when_reachable`). -/
theorem open_turn_parks_connection_task (n m : Nat) (c c1 : Conn) (s' : Streams) (w' : Writer) (io' : Tio) (r : WRes)
    (hc : CapOK c.codec.w) (h2 : Conn.poll2Loop n c = (c1, .pending))
    (hi : PInv c1.streams) (hr : RangeOK c1.streams)
    (hpc : Streams.pollComplete m c1.streams c1.codec.w c1.codec.io c1.cx = (s', w', io', r))
    (hne : ∀ k, r ≠ .err k) (hp : s'.panicked = none) :
    PollParked { c1 with streams := s', codec := { c1.codec with w := w', io := io' } } ∧ CapOK w' :=
  open_turn n m c c1 s' w' io' r hc h2 hi hr hpc hne hp

/-- non-vacuity: the first poll of a fresh client (`poll2` parks on the read waker, `poll_complete` flushes the
    SETTINGS frame and answers `Ready`) -/
example : (Conn.poll2Loop 10 (Conn.init {})).2 matches .pending ∧
    (Streams.pollComplete 10 (Conn.poll2Loop 10 (Conn.init {})).1.streams (Conn.poll2Loop 10 (Conn.init {})).1.codec.w
      (Conn.poll2Loop 10 (Conn.init {})).1.codec.io "c").2.2.2 = .ready := by decide

/-- **The connection invariant holds for fresh connections and is kept by `Connection::poll`.**  `CInv c`: the
    write buffer is sane (`CapOK`), the stream layer is reachable in the sense of the three lemma families used
    here (`SReach`: ConnFlowP, ConnCountsP, ConnRecvP — hence `PInv` and `RangeOK` whenever no panic was recorded),
    a SETTINGS frame remembered in `settings.remote` came out of the decoder (INITIAL_WINDOW_SIZE ≤ 2^31-1), local
    SETTINGS carry a window ≤ 2^31-1.  It holds for `Conn.init g` / `Conn.initServer g …` (builder options h2
    accepts) and after `proto::Connection::poll` / `client::Connection::poll`, whatever the transport delivers
    (every frame `poll_next` yields satisfies the decoder's bounds). -/
theorem connection_invariant_initially_and_kept (g : Conn.Cfg) (ecp : Bool) (pf : Bytes) (n : Nat) (c : Conn)
    (hodd : g.firstId % 2 = 1) (hcws : ∀ sz, g.cws = some sz → sz ≤ 2147483647)
    (hiws : ∀ t, g.iws = some t → t ≤ 2147483647) :
    CInv (Conn.init g) ∧ CInv (Conn.initServer g ecp pf) ∧
    (CInv c → CInv (Conn.protoPoll n c).1 ∧ CInv (Conn.clientPoll n c).1) :=
  ⟨cinv_init g hodd hcws hiws, cinv_initServer g ecp pf hcws hiws, fun h => ⟨CInv.protoPoll n h, h.clientPoll n⟩⟩

example : ({} : Conn.Cfg).firstId % 2 = 1 ∧ (∀ sz, ({} : Conn.Cfg).cws = some sz → sz ≤ 2147483647) ∧
    (∀ t, ({} : Conn.Cfg).iws = some t → t ≤ 2147483647) :=
  ⟨by decide, (by intro _ h; cases h), (by intro _ h; cases h)⟩

/-- **`Connection::poll` answers `Pending` only with the connection task parked and nothing writable left** —
    the end-to-end form of target 1 and of statement (D) of `H2V.Props.C06`, for the whole state machine of
    `proto::Connection::poll` (all turns of its loop: `poll2`, `handle_poll2_result`, `poll_complete`, the idle
    GOAWAY, `Closing`) and for `client::Connection::poll`, from ANY state satisfying `CInv` (in particular from
    every state reached from `Conn.init` / `Conn.initServer` by polls, see above), for every input, transport
    behaviour and fuel.  `PollParked c'` = the task's waker is held by the transport's write half (the codec could
    not take or flush more), or (`Settled`) it is held by the read half AND `Actions.task`, with: no GOAWAY / PONG /
    SETTINGS ACK / local SETTINGS / refusal owed, the PING slot idle, `pending_send` empty, no stream or
    connection WINDOW_UPDATE owed, the write buffer flushed.  `hp`: the model recorded no `assert!`/panic.
    No fuel hypothesis, no writer hypothesis. -/
theorem connection_poll_pending_means_parked_and_drained (n : Nat) (c c' : Conn) (hi : CInv c)
    (hp : c'.streams.panicked = none) :
    (Conn.protoPoll n c = (c', .pending) → PollParked c') ∧
    (Conn.clientPoll n c = (c', .pending) → PollParked c') :=
  ⟨fun h => protoPoll_pending_parked n c c' hi h hp, fun h => clientPoll_pending_parked n c c' hi h hp⟩

/-- non-vacuity: the first poll of a fresh client is `Pending` (and no panic is recorded) -/
example : (Conn.clientPoll 10 (Conn.init {})).2 matches .pending ∧
    (Conn.clientPoll 10 (Conn.init {})).1.streams.panicked = none := by decide

/-- **FINDING (benign): a stream can be left in `pending_open` although a slot is free after a completed poll.**
    State reached from `Conn.init {}` through the model API (`PO.s1 … PO.s8`, see ConnDrainPFindings.lean; same
    digests on the real code): MAX_CONCURRENT_STREAMS = 1, three requests (A open, B and C in `pending_open`),
    GOAWAY(last_stream_id = 1) fails B and C but leaves them linked in `pending_open`, the response closes A.
    The next `poll_complete` answers `Ready` with `pending_open = [C]` and `can_inc_num_send_streams()`:
    `pop_pending_open` opened the dead stream B, `pop_frame` found its queue empty and `transition_after` gave
    the slot back AFTER `pop_pending_open` had been evaluated.  So the clause "`pending_open` is empty or no slot
    is free" of target 1 is FALSE in a reachable state; it is harmless here: every stream left behind has
    already been failed (handles woken with the error) and the connection is going away. -/
theorem pending_open_leftover_counterexample :
    PO.p8.2.2.2 = .ready ∧ PO.s8.panicked = none ∧ PO.s8.prio.pendingOpen = [2] ∧
    PO.s8.counts.canIncNumSendStreams = true ∧ PO.s8.prio.pendingSend = [] ∧
    PO.s7.actions.connError.isSome = true :=
  ⟨PO.leftover.1, PO.leftover.2.1, PO.leftover.2.2.1, PO.leftover.2.2.2.1, PO.leftover.2.2.2.2, PO.step7.2.2⟩

/-- **No lost wake-up for the connection task, in every history (target 3, poll half).**  `DReach c`: `c` is reached
    from a fresh client or server connection (builder options h2 accepts) by any sequence of: polls of the
    connection with any fuel, calls of the user-side handles on the stream layer with ANY arguments (`HandleStep`:
    `send_request`, `send_data`, `send_trailers`, `send_reset`, `reserve_capacity`, `release_capacity`, the
    `poll_*` functions including `poll_pushed`, clone/drop of handles, `send_response`, `push_request`, …), arbitrary transport events
    (input, budgets, errors, wakers taken), a change of the polling task, `set_target_window_size` /
    `set_initial_window_size` (≤ 2^31-1), the ping handle's calls, graceful / abrupt shutdown.  In every such
    state the invariant `CInv` holds, and `Connection::poll` answers `Pending` only with `PollParked`: the task's
    waker is held by the transport's write half, or by its read half AND `Actions.task` with nothing writable
    left.  Together with `H2V.Props.C06` (every handle operation that queues work takes and wakes `Actions.task`;
    the transport wakes its read/write waker when it can make progress) this is the safety form of "queued work
    is never stranded": whatever happened before, each `Pending` re-establishes the parked-and-drained state from
    scratch.  Only hypothesis: the model recorded no `assert!`/panic. -/
theorem no_lost_wakeup_for_connection_task_in_every_history (n : Nat) (c c' : Conn) (h : DReach c)
    (hp : c'.streams.panicked = none) :
    CInv c ∧ (Conn.protoPoll n c = (c', .pending) → PollParked c') ∧
    (Conn.clientPoll n c = (c', .pending) → PollParked c') :=
  ⟨h.cinv, (dreach_poll_pending_parked n h hp).1, (dreach_poll_pending_parked n h hp).2⟩

/-- non-vacuity: a client that was polled, got a request through a handle, and is polled again -/
example : DReach { (Conn.clientPoll 10 (Conn.init {})).1 with
    streams := ((Conn.clientPoll 10 (Conn.init {})).1.streams.sendRequest false [] true none).1 } :=
  .handle (.clientPoll 10 (.client {} (by decide) (by intro _ h; cases h) (by intro _ h; cases h)))
    (.sendRequest _ false [] true none)

/-- **The `pending_capacity` clause of target 1, as an invariant over every history.**  In every connection state
    reachable from a fresh connection (`DReach`: polls, handle calls with any arguments, transport events, user
    calls — see the previous theorem), not only after a completed poll: a stream is linked in
    `prioritize.pending_capacity` only while the connection-level send window has NOTHING left to hand out
    (`flow.available() == 0`).  So a stream waiting for capacity really cannot be given anything; what it waits
    for is a connection WINDOW_UPDATE (or capacity handed back by another stream), and both go through
    `assign_connection_capacity`, which hands out until the window is used up or nobody waits (ConnFlowP).
    Proof: `KInv` (= ConnFlowP's `SafeInv` ∧ `ReqOk` ∧ this clause) is kept by every function of the stream layer
    (ConnDrainPCapA…E, ≈150 functions) and is part of `CInv`.  No hypothesis besides reachability — in particular
    no "no panic recorded". -/
theorem pending_capacity_only_while_connection_window_is_used_up (c : Conn) (h : DReach c) :
    c.streams.prio.pendingCapacity = [] ∨ c.streams.prio.flow.available.val = 0 :=
  dreach_capacity h

/-- non-vacuity: a reachable state in which a stream DOES wait in `pending_capacity` (two requests, a poll,
    `send_data` of 65535 octets on the first stream, of 10 octets on the second; see ConnDrainPCapF.lean) -/
example : DReach PC.c5 ∧ PC.c5.streams.prio.pendingCapacity = [1] ∧ PC.c5.streams.prio.flow.available.val = 0 :=
  ⟨PC.c5_reach, PC.c5_waits.2.1, PC.c5_waits.2.2⟩

/-- **Target 1, all clauses that are true, in one statement.**  From any reachable connection state,
    `Connection::poll` (server/proto or client flavour) answering `Pending` with no panic recorded leaves the
    connection task parked (`PollParked`: write waker held by the transport, or read waker ∧ `Actions.task` ∧ every
    GOAWAY / PONG / SETTINGS / refusal slot empty ∧ `pending_send = []` ∧ no WINDOW_UPDATE owed ∧ writer flushed) AND
    nobody in `pending_capacity` could be given anything.  The one clause of target 1 that is missing,
    "`pending_open` empty or no slot free", is false (`pending_open_leftover_counterexample`). -/
theorem connection_poll_pending_leaves_nothing_writable_or_assignable (n : Nat) (c c' : Conn) (h : DReach c)
    (hp : c'.streams.panicked = none) :
    (Conn.protoPoll n c = (c', .pending) →
      PollParked c' ∧ (c'.streams.prio.pendingCapacity = [] ∨ c'.streams.prio.flow.available.val = 0)) ∧
    (Conn.clientPoll n c = (c', .pending) →
      PollParked c' ∧ (c'.streams.prio.pendingCapacity = [] ∨ c'.streams.prio.flow.available.val = 0)) :=
  ⟨fun hq => ⟨(dreach_poll_pending_parked n h hp).1 hq, by have := dreach_capacity (.protoPoll n h); rwa [hq] at this⟩,
   fun hq => ⟨(dreach_poll_pending_parked n h hp).2 hq, by have := dreach_capacity (.clientPoll n h); rwa [hq] at this⟩⟩

/-- non-vacuity: the witness state above is polled again and the poll is `Pending` without a panic -/
example : DReach PC.c5 ∧ (Conn.clientPoll 10 PC.c5).2 matches .pending ∧
    (Conn.clientPoll 10 PC.c5).1.streams.panicked = none := ⟨PC.c5_reach, by decide⟩

end H2V.Props.C06Drain

#print axioms H2V.Props.C06Drain.poll_next_pending_registers_read_waker
#print axioms H2V.Props.C06Drain.drain_invariants_hold_when_reachable
#print axioms H2V.Props.C06Drain.pop_frame_fuel_suffices
#print axioms H2V.Props.C06Drain.buffer_pending_complete_means_nothing_to_send
#print axioms H2V.Props.C06Drain.poll_complete_ready_means_drained
#print axioms H2V.Props.C06Drain.poll_ready_pending_parked_ready_done
#print axioms H2V.Props.C06Drain.poll2_pending_is_parked
#print axioms H2V.Props.C06Drain.open_turn_parks_connection_task
#print axioms H2V.Props.C06Drain.connection_invariant_initially_and_kept
#print axioms H2V.Props.C06Drain.connection_poll_pending_means_parked_and_drained
#print axioms H2V.Props.C06Drain.pending_open_leftover_counterexample
#print axioms H2V.Props.C06Drain.no_lost_wakeup_for_connection_task_in_every_history
#print axioms H2V.Props.C06Drain.pending_capacity_only_while_connection_window_is_used_up
#print axioms H2V.Props.C06Drain.connection_poll_pending_leaves_nothing_writable_or_assignable
