import H2V.Lemmas.ConnDrainPRead
/-
  C06 (progress, no lost wake-up) — the gaps left open by `H2V/Props/C06.lean` (ConnWakeP family):
  what a completed poll of the connection leaves behind, and who is woken when.
  Property theorems only; lemmas in `H2V/Lemmas/ConnDrainP*.lean` (see ConnDrainPNOTES.md).
-/
namespace H2V.Props.C06Drain
open H2V H2V.Model H2V.Model.Conn H2V.Lemmas.ConnDrainP

/-- **Read side: `poll_next` `Pending` ⇒ the transport holds the read waker.**  When the codec has no
    complete frame, no read error and no EOF, `Codec::poll_next` answers `Pending` only after storing the
    polling task's waker in the transport's read half (which the harness wakes when octets arrive).
    `hf`: the fuel covers the octets still to be scanned — `poll2` passes `buffered + unread + 2`, see the
    example. -/
theorem poll_next_pending_registers_read_waker (fuel : Nat) (c c' : Codec) (tag : String)
    (hf : c.r.buf.length + c.io.rd.length < fuel)
    (h : pollNext fuel c tag = (c', .pending)) : c'.io.readWaker = some tag :=
  pollNext_pending_parks fuel c c' tag hf h

/-- non-vacuity: a fresh codec with nothing to read is `Pending` and parks the tag -/
example : (match (pollNext 2 ({} : Codec) "c").2 with | .pending => true | _ => false) = true ∧
    (pollNext 2 ({} : Codec) "c").1.io.readWaker = some "c" := by decide

end H2V.Props.C06Drain

#print axioms H2V.Props.C06Drain.poll_next_pending_registers_read_waker
