import H2V.Lemmas.ConnResetPLife
/-
  C04 — every frame sequence an endpoint emits obeys the HTTP/2 stream life cycle.
  PROPERTY THEOREMS ONLY (proofs: H2V/Lemmas/ConnResetP*.lean, State machine vs RFC:
  H2V/Lemmas/CompState.lean; partial results and the finding: H2V/Lemmas/ConnResetPNOTES.md).
  `Op` / `run`: a history = any list of the operations the connection and the handles perform on the
  stream layer (H2V/Lemmas/ConnResetPHist.lean).
-/
namespace H2V.Props.C04
open H2V H2V.Model H2V.Model.Conn H2V.Lemmas.ConnResetP

/-- **Identifiers: `next`, then `next + 2`, never wrapped.**  `Send::open` hands out the current
    `next_stream_id` and moves it two further — to `Err(overflow)` once it would pass 2^31-1. -/
theorem stream_id_handed_out (s : Streams) (id : Nat) (h : s.actions.send.nextStreamId = some id) :
    s.sendOpenId.2 = .ok id ∧
    s.sendOpenId.1.actions.send.nextStreamId = (if id + 2 > 2147483647 then none else some (id + 2)) :=
  sendOpenId_ok s id h

example : ({} : Streams).actions.send.nextStreamId = some 1 := rfl

/-- **Consecutive identifiers are strictly increasing with the same parity and stay ≤ 2^31-1.** -/
theorem stream_ids_increase (s : Streams) (id id' : Nat) (h : s.sendOpenId.2 = .ok id)
    (h' : s.sendOpenId.1.sendOpenId.2 = .ok id') : id' = id + 2 ∧ id' ≤ 2147483647 :=
  sendOpenId_twice s id id' h h'

example : ({} : Streams).sendOpenId.2 = .ok 1 ∧ ({} : Streams).sendOpenId.1.sendOpenId.2 = .ok 3 := by decide

/-- **When identifiers run out, new requests are refused, not wrapped** (`UserError::OverflowedStreamId`),
    and the state is untouched. -/
theorem request_refused_when_ids_exhausted (s : Streams) (isHead : Bool) (f : List Hpack.Field) (eos : Bool) (p : Option Nat)
    (hc : s.actions.connError = none) (h : s.actions.send.nextStreamId = none) :
    s.sendRequest isHead f eos p = (s, .error (.user .overflowedStreamId)) :=
  sendRequest_overflow s isHead f eos p hc h

/-- the last identifier 2^31-1 is handed out, then the field is `Err` -/
example : let s : Streams := { actions := { send := { nextStreamId := some 2147483647 } } }
    s.sendOpenId.2 = .ok 2147483647 ∧ s.sendOpenId.1.actions.send.nextStreamId = none := by decide

/-- **A stream never returns to idle.**  In every history, a slab entry whose state has left `Idle`
    stays out of `Idle` (so a frame queued after the state moved is never written "on an idle stream"). -/
theorem never_back_to_idle (s : Streams) (hs : s.store.slab = []) (ops ops' : List Op) (k : Nat) (st st' : Stream)
    (h : (run s ops).store.get? k = some st) (h' : (run (run s ops) ops').store.get? k = some st')
    (hi : st.state.isIdle = false) : st'.state.isIdle = false :=
  (run_srel (run s ops) ops' (run_keysBelow s ops (keysBelow_empty s hs)) h h').nonIdle hi

example : ((run {} [.sendRequest false [] false none]).store.get? 0).map (·.state.isIdle) = some false := by decide

/-- **A closed stream stays closed** in every history (no frame type reopens it). -/
theorem closed_stays_closed (s : Streams) (hs : s.store.slab = []) (ops ops' : List Op) (k : Nat) (st st' : Stream)
    (h : (run s ops).store.get? k = some st) (h' : (run (run s ops) ops').store.get? k = some st')
    (hc : st.state.isClosed = true) : st'.state.isClosed = true :=
  (run_srel (run s ops) ops' (run_keysBelow s ops (keysBelow_empty s hs)) h h').closed hc

example : ((run {} [.sendRequest false [] false none, .refSendReset 0 8]).store.get? 0).map (·.state.isClosed) = some true := by
  decide

/-- **DATA after END_STREAM / RST_STREAM / before HEADERS is refused**: `send_data` needs our side to be
    streaming; otherwise it fails and changes nothing (nothing is queued). -/
theorem data_needs_send_streaming (s : Streams) (k len : Nat) (eos : Bool) (h : (s.stream k).state.isSendStreaming = false) :
    (s.prioSendData k len eos).1 = s ∧ ∃ e, (s.prioSendData k len eos).2 = .error e :=
  prioSendData_not_streaming s k len eos h

/-- **Trailers likewise.** -/
theorem trailers_need_send_streaming (s : Streams) (k : Nat) (f : List Hpack.Field)
    (h : (s.stream k).state.isSendStreaming = false) :
    (s.sendTrailers k f).1 = s ∧ ∃ e, (s.sendTrailers k f).2 = .error e :=
  sendTrailers_not_streaming s k f h

/-- **HEADERS where RFC 9113 §5.1 forbids sending HEADERS are refused** (`Spec.Lifecycle.step … (sendH eos) = none`:
    half-closed (local), closed, reserved (remote)): the call fails, nothing is queued. -/
theorem headers_refused_where_rfc_forbids (s : Streams) (k : Nat) (eos : Bool) (f : List Hpack.Field)
    (h : Spec.Lifecycle.step (H2V.Lemmas.Comp.phase (s.stream k).state) (.sendH eos) = none) :
    (s.sendHeaders k eos f).1 = s ∧ ∃ e, (s.sendHeaders k eos f).2 = .error e :=
  sendHeaders_refused s k eos f h

/-- **1xx HEADERS after the final response / END_STREAM / reset are refused.** -/
theorem informational_refused_after_response (s : Streams) (k : Nat) (f : List Hpack.Field)
    (h : ((s.stream k).state.isSendStreaming || (s.stream k).state.isSendClosed) = true) :
    (s.sendInterimInformationalHeaders k f).1 = s ∧ ∃ e, (s.sendInterimInformationalHeaders k f).2 = .error e :=
  sendInformational_refused s k f h

/-- **PUSH_PROMISE is only queued on a parent we may still send on** (finding F29 of this work, repaired:
    `Send::send_push_promise` used not to look at the parent's state and wrote PUSH_PROMISE after
    END_STREAM / RST_STREAM).  If `send_push_promise` succeeds, the parent is not send-closed; for a
    request stream (not idle, not a reserved (local) pushed stream) that is exactly RFC 9113 §6.6:
    the parent is open or half-closed (remote) — `Spec.Lifecycle.canSend`. -/
theorem push_promise_only_on_sendable_parent (s : Streams) (parent k promised : Nat) (f : List Hpack.Field)
    (h : (s.sendPushPromise parent k promised f).2 = .ok ())
    (hi : H2V.Lemmas.Comp.phase (s.stream parent).state ≠ .idle)
    (hr : H2V.Lemmas.Comp.phase (s.stream parent).state ≠ .reservedLocal) :
    (s.stream parent).state.isSendClosed = false ∧
    Spec.Lifecycle.canSend (H2V.Lemmas.Comp.phase (s.stream parent).state) = true :=
  ⟨sendPushPromise_ok_parent s parent k promised f h,
   canSend_of_not_sendClosed _ (sendPushPromise_ok_parent s parent k promised f h) hi hr⟩

/-- **…and refused otherwise**: on a send-closed parent (END_STREAM sent or queued, reset, failed,
    half-closed (local)) `send_push_promise` fails and queues nothing. -/
theorem push_promise_refused_on_closed_parent (s : Streams) (parent k promised : Nat) (f : List Hpack.Field)
    (h : (s.stream parent).state.isSendClosed = true) :
    (s.sendPushPromise parent k promised f).1 = s ∧ ∃ e, (s.sendPushPromise parent k promised f).2 = .error e :=
  sendPushPromise_send_closed s parent k promised f h

/-- the stream layer of a server that has accepted one request on stream 1 (END_STREAM received, the
    application holds the `SendResponse`): what `recv_headers` + `next_incoming` leave behind -/
def serverWithRequest : Streams :=
  { counts := { isServer := true, numRecvStreams := 1 },
    actions := { send := { nextStreamId := some 2 }, recv := { nextStreamId := some 3, lastProcessedId := 1 } },
    store := { slab := [{ key := 0, id := 1, state := ⟨.halfClosedRemote .awaitingHeaders⟩, refCount := 1, isCounted := true,
                          sendFlow := (FlowControl.new.incWindow 65535).1,
                          recvFlow := ((FlowControl.new.incWindow 65535).1.assignCapacity 65535).1 }],
               ids := [(1, 0)], nextKey := 1 },
    refs := 2 }

/-- non-vacuity of both: before the response a push is accepted and comes out of `pop_frame` on stream 1;
    after the response with END_STREAM (the history that used to put `PP:1:2` on the closed stream 1) the
    push is refused and `pop_frame` has nothing to send -/
example :
    (match (Streams.popFrame 4 (serverWithRequest.refSendPushPromise 0 true []).1 16384).2 with
     | some (.pushPromise 1 2 _) => true
     | _ => false) = true ∧
    (let s := run serverWithRequest [.refSendResponse 0 [] true, .pollComplete 10 {} {} "c"]
     (s.stream 0).state.isSendClosed = true ∧ (s.refSendPushPromise 0 true []).2 = .error .inactiveStreamId ∧
     (match (Streams.popFrame 4 (s.refSendPushPromise 0 true []).1 16384).2 with
      | none => true
      | _ => false) = true) := by decide

end H2V.Props.C04

#print axioms H2V.Props.C04.stream_id_handed_out
#print axioms H2V.Props.C04.stream_ids_increase
#print axioms H2V.Props.C04.request_refused_when_ids_exhausted
#print axioms H2V.Props.C04.never_back_to_idle
#print axioms H2V.Props.C04.closed_stays_closed
#print axioms H2V.Props.C04.data_needs_send_streaming
#print axioms H2V.Props.C04.trailers_need_send_streaming
#print axioms H2V.Props.C04.headers_refused_where_rfc_forbids
#print axioms H2V.Props.C04.informational_refused_after_response
#print axioms H2V.Props.C04.push_promise_only_on_sendable_parent
#print axioms H2V.Props.C04.push_promise_refused_on_closed_parent
