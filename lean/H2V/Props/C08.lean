import H2V.Lemmas.ConnResetPHist
/-
  C08 — no peer input can panic, wedge or busy-loop an endpoint.
  PROPERTY THEOREMS ONLY (proofs: H2V/Lemmas/ConnResetP*.lean; status: H2V/Lemmas/ConnResetPNOTES.md).
  First instalment: the store discipline that the `store.resolve(key)` / `Index<Key>` panics
  ("dangling store key") rest on.  `Op` / `run`: a history = any list of the operations the connection
  and the handles perform on the stream layer (H2V/Lemmas/ConnResetPHist.lean).
-/
namespace H2V.Props.C08
open H2V H2V.Model H2V.Model.Conn H2V.Lemmas.ConnResetP

/-- **Slab keys are never handed out twice.**  In every history every key in use is below `nextKey`
    (`Store::insert` takes `nextKey` and increments it): a `store::Key` held by a handle or sitting in a
    queue can never come to name a stream inserted later. -/
theorem keys_below_next (s : Streams) (hs : s.store.slab = []) (ops : List Op) (k : Nat) (st : Stream)
    (h : (run s ops).store.get? k = some st) : k < (run s ops).store.nextKey :=
  run_keysBelow s ops (keysBelow_empty s hs) k st h

example : ((run {} [.sendRequest false [] false none]).store.get? 0).isSome = true ∧
    (run {} [.sendRequest false [] false none]).store.nextKey = 1 := by decide

/-- **A key names one stream for ever.**  If a key resolves at two moments of a history, the later entry
    is the earlier one evolved: same key, same stream id. -/
theorem key_names_one_stream (s : Streams) (hs : s.store.slab = []) (ops ops' : List Op) (k : Nat) (st st' : Stream)
    (h : (run s ops).store.get? k = some st) (h' : (run (run s ops) ops').store.get? k = some st') :
    st'.key = st.key ∧ st'.id = st.id :=
  let r := run_srel (run s ops) ops' (run_keysBelow s ops (keysBelow_empty s hs)) h h'
  ⟨r.key, r.id⟩

end H2V.Props.C08

#print axioms H2V.Props.C08.keys_below_next
#print axioms H2V.Props.C08.key_names_one_stream
