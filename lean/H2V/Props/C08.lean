import H2V.Lemmas.ConnResetPHist
import H2V.Lemmas.ConnResetPFuel
/-
  C08 — no peer input can panic, wedge or busy-loop an endpoint.
  PROPERTY THEOREMS ONLY (proofs: H2V/Lemmas/ConnResetP*.lean; status: H2V/Lemmas/ConnResetPNOTES.md).
  First instalment: the store discipline that the `store.resolve(key)` / `Index<Key>` panics
  ("dangling store key") rest on.  `Op` / `run`: a history = any list of the operations the connection
  and the handles perform on the stream layer (H2V/Lemmas/ConnResetPHist.lean).
-/
namespace H2V.Props.C08
open H2V H2V.Model H2V.Model.Conn H2V.Lemmas.ConnResetP

/-- **Slab keys are never handed out twice.**  In every history every key in use is below `nextKey`
    (`Store::insert` takes `nextKey` and increments it): a `store::Key` held by a handle or sitting in a
    queue can never come to name a stream inserted later. -/
theorem keys_below_next (s : Streams) (hs : s.store.slab = []) (ops : List Op) (k : Nat) (st : Stream)
    (h : (run s ops).store.get? k = some st) : k < (run s ops).store.nextKey :=
  run_keysBelow s ops (keysBelow_empty s hs) k st h

example : ((run {} [.sendRequest false [] false none]).store.get? 0).isSome = true ∧
    (run {} [.sendRequest false [] false none]).store.nextKey = 1 := by decide

/-- **A key names one stream for ever.**  If a key resolves at two moments of a history, the later entry
    is the earlier one evolved: same key, same stream id. -/
theorem key_names_one_stream (s : Streams) (hs : s.store.slab = []) (ops ops' : List Op) (k : Nat) (st st' : Stream)
    (h : (run s ops).store.get? k = some st) (h' : (run (run s ops) ops').store.get? k = some st') :
    st'.key = st.key ∧ st'.id = st.id :=
  let r := run_srel (run s ops) ops' (run_keysBelow s ops (keysBelow_empty s hs)) h h'
  ⟨r.key, r.id⟩

/-- **A stream is never released while a handle to it is alive** (no dangling `store::Key` behind a
    `StreamRef` / `OpaqueStreamRef`: `store.resolve(key)` in a handle method cannot panic).  State with all
    keys below `nextKey` (every reachable state), an entry `k` with `ref_count > 0`; run ANY history that
    does not drop a handle of entry `k` (peer frames, resets, errors, GOAWAY, EOF, drops of other handles,
    connection polls … are all allowed): entry `k` is still in the slab, it is the same stream, and its
    `ref_count` has not gone down. -/
theorem referenced_stream_is_never_released (s : Streams) (ops : List Op) (k : Nat) (st : Stream) (hkb : KeysBelow s.store)
    (h0 : s.store.get? k = some st) (hr : 0 < st.refCount) (hk : Op.dropStreamRef k ∉ ops) :
    ∃ st', (run s ops).store.get? k = some st' ∧ st.refCount ≤ st'.refCount ∧ st'.id = st.id :=
  run_keeps_referenced s ops k st hkb h0 hr hk

/-- non-vacuity: a request stream with its two handles survives reset by the peer, a connection error and EOF -/
example : let s := run {} [.sendRequest false [] false none, .cloneStreamRef 0]
    ((s.store.get? 0).map (·.refCount) = some 2) ∧
    (((run s [.pollComplete 10 {} {} "c", .recvReset 1 8, .handleError (.io "BrokenPipe" none), .recvEof true]).store.get? 0).map
      (·.refCount) = some 2) := by decide

/-- **The queue-draining loops terminate after `queue length` rounds** (`Send::clear_queues`,
    `Recv::clear_queues`: `clear_pending_capacity`, `clear_pending_send`, `clear_pending_open`,
    `clear_stream_window_update_queue`, `clear_all_reset_streams`, `clear_all_pending_accept`).
    In the model every `while let Some(stream) = queue.pop(store) { … }` carries fuel; with more than
    `queue length` units the result no longer depends on the fuel: the loop has run into the empty
    queue.  The callers pass `length + 1`. -/
theorem clear_queue_loops_terminate (n m : Nat) (s : Streams) :
    (s.prio.pendingCapacity.length < n → s.prio.pendingCapacity.length < m →
      Streams.clearPendingCapacity n s = Streams.clearPendingCapacity m s) ∧
    (s.prio.pendingSend.length < n → s.prio.pendingSend.length < m →
      Streams.clearPendingSend n s = Streams.clearPendingSend m s) ∧
    (s.prio.pendingOpen.length < n → s.prio.pendingOpen.length < m →
      Streams.clearPendingOpen n s = Streams.clearPendingOpen m s) ∧
    (s.recv.pendingWindowUpdates.length < n → s.recv.pendingWindowUpdates.length < m →
      Streams.clearStreamWindowUpdateQueue n s = Streams.clearStreamWindowUpdateQueue m s) ∧
    (s.recv.pendingResetExpired.length < n → s.recv.pendingResetExpired.length < m →
      Streams.clearAllResetStreams n s = Streams.clearAllResetStreams m s) ∧
    (s.recv.pendingAccept.length < n → s.recv.pendingAccept.length < m →
      Streams.clearAllPendingAccept n s = Streams.clearAllPendingAccept m s) :=
  ⟨clearPendingCapacity_fuel n m s, clearPendingSend_fuel n m s, clearPendingOpen_fuel n m s,
   clearStreamWindowUpdateQueue_fuel n m s, clearAllResetStreams_fuel n m s, clearAllPendingAccept_fuel n m s⟩

/-- the fuel `Send::clear_queues` passes (`len + 1`) is on the safe side of the bound -/
example (s : Streams) : s.prio.pendingSend.length < s.prio.pendingSend.length + 1 := Nat.lt_succ_self _

/-- **`clear_expired_reset_streams`, run at the head of every `Connection::poll`, terminates** after at
    most `pending_reset_expired.len()` rounds (`poll2` passes `len + 1`). -/
theorem clear_expired_reset_streams_terminates (n m : Nat) (s : Streams)
    (hn : s.recv.pendingResetExpired.length < n) (hm : s.recv.pendingResetExpired.length < m) :
    Streams.clearExpiredResetStreams n s = Streams.clearExpiredResetStreams m s :=
  clearExpiredResetStreams_fuel n m s hn hm

/-- **`poll_response` does bounded work**: it skips at most the queued 1xx heads, one per round
    (`pending_recv.len() + 1` rounds suffice, which is what the driver passes). -/
theorem poll_response_terminates (n m : Nat) (s : Streams) (k : Nat) (tag : String)
    (hn : (s.stream k).pendingRecv.length < n) (hm : (s.stream k).pendingRecv.length < m) :
    Streams.recvPollResponse n s k tag = Streams.recvPollResponse m s k tag :=
  recvPollResponse_fuel n m s k tag hn hm

end H2V.Props.C08

#print axioms H2V.Props.C08.keys_below_next
#print axioms H2V.Props.C08.key_names_one_stream
#print axioms H2V.Props.C08.clear_queue_loops_terminate
#print axioms H2V.Props.C08.clear_expired_reset_streams_terminates
#print axioms H2V.Props.C08.poll_response_terminates
#print axioms H2V.Props.C08.referenced_stream_is_never_released
