import H2V.Lemmas.ConnHttpPConn
import H2V.Lemmas.ConnHttpPCex
/-
  C13 — malformed HTTP messages are neither delivered nor generated.
  Property theorems only (lemmas: `H2V/Lemmas/ConnHttpP*.lean`, notes: `H2V/Lemmas/ConnHttpPNOTES.md`).

  Vocabulary.  `g` is the *field list of a header block*: the concatenation, over all the fragments of
  the block (HEADERS / PUSH_PROMISE + CONTINUATION), of the fields HPACK decoded (`ghostNext`, carried
  next to the reader; by `H2V.Lemmas.HpackDec.split_invariance_list` it is what decoding the
  concatenated fragments yields).  `Spec.Http.common / request / response / trailers g` are the rule
  violations of RFC 9113 §8 per `H2V/Spec/Http.lean`.  `Delivers P s s'` says: every receive queue
  (`pending_recv`) of `s'` is empty, or what it was in `s`, or that plus ONE new event satisfying `P`.
-/
namespace H2V.Props.C13
open H2V H2V.Model H2V.Model.Frame H2V.Model.Hpack H2V.Model.Conn H2V.Model.CodecRead H2V.Lemmas.ConnHttpP

-- ===================================================================== 1. the framing layer

/-- The reader invariant (dynamic table holds only fields `Header::new` accepted; the partial block
    stands for the ghost list) holds after ANY sequence of frames — well-formed or not, header blocks
    fragmented anyhow — and settings changes, from a fresh reader. No hypothesis. -/
theorem reader_invariant_reachable (maxFrameSize : Nat) (ops : List ROp) :
    RInv (runROps (Reader.new maxFrameSize, []) ops).1 (runROps (Reader.new maxFrameSize, []) ops).2 :=
  rinv_reachable maxFrameSize ops

/-- **Uppercase / ill-formed field names, unknown pseudo-header fields, bad `:status` never get past
    HPACK**: every field `Decoder::decode` hands to `HeaderBlock::load` has a lower-case well-formed
    name, one of the six known pseudo-header names if it starts with `:`, and a three-digit `:status`
    (anything else is an HPACK error = connection error). Hypothesis: the table invariant, which
    `reader_invariant_reachable` establishes. -/
theorem hpack_hands_over_wellformed_fields_only (d : Decoder) (src : Bytes) (ht : TableOk d.table) :
    TableOk (d.decode src).dec.table ∧ ∀ x ∈ (d.decode src).fields, fieldOk x = true :=
  decode_ok d src ht

example : TableOk (Decoder.new 4096).table := new_tableOk _

/-- **Connection-specific fields, `te` ≠ trailers, duplicated pseudo-header fields, pseudo-header
    fields behind regular ones are never delivered, however the block is fragmented**: a HEADERS or
    PUSH_PROMISE frame that `decode_frame` delivers carries a block that is unflagged and — unless it
    is over-size (then the stream layer refuses it: 431 / reset) — its complete field list `g'` violates
    none of the rules common to all header sections, and the block holds exactly the pseudo-header
    values and regular fields of `g'`. -/
theorem delivered_block_obeys_common_rules (r : Reader) (g : List Header) (bytes : Bytes) (blk : HeaderBlock)
    (hi : RInv r g) (hd : dfBlock (decodeFrame r bytes).2 = some blk) :
    blk.isMalformed = false ∧
    (blk.isOverSize = true ∨
      (Spec.Http.common (ghostNext g r bytes) = [] ∧ PseudoExact (ghostNext g r bytes) blk.pseudo ∧
        blk.fields = groupInto [] (regular (ghostNext g r bytes)))) :=
  ⟨(delivered_block_common r g bytes blk hi hd).1, (delivered_block_common r g bytes blk hi hd).2.2.2⟩

example : RInv rd0 [] ∧ (dfBlock (decodeFrame rd0 getFrame).2).isSome = true := ⟨rinv_new _, by decide +kernel⟩

/-- **From the wire to the block, any fragmentation.** After ANY sequence of frames from a fresh reader, a
    HEADERS / PUSH_PROMISE block that the next frame completes is unflagged and stands for the field
    list `(d0.decode src).fields`, where `src` is the CONCATENATION of the block's fragments (collected by
    the transparent ghost `wireNext`) and `d0` the HPACK decoder when the block began; that decoding
    succeeded; all its fields passed `Header::new`. (With `H2V.Lemmas.HpackDec.decode_sound` this is the
    RFC 7541 decoding of the block.) No hypothesis beyond "the frame delivers a block". -/
theorem delivered_block_is_decoding_of_concatenated_fragments (maxFrameSize : Nat) (frames : List Bytes) (bytes : Bytes)
    (blk : HeaderBlock)
    (hd : dfBlock (decodeFrame (runFrames (Reader.new maxFrameSize, [], none) frames).1 bytes).2 = some blk) :
    ∃ d0 src, (d0.decode src).result = .ok () ∧ blk.isMalformed = false ∧ BlockInv blk (d0.decode src).fields ∧
      (∀ x ∈ (d0.decode src).fields, fieldOk x = true) ∧
      wireNext (runFrames (Reader.new maxFrameSize, [], none) frames).2.2
        (runFrames (Reader.new maxFrameSize, [], none) frames).1 bytes = some (d0, src) :=
  delivered_block_is_decoding_of_concatenation maxFrameSize frames bytes blk hd

/-- a request cut into three fragments (the last cut inside a literal): `src` is the concatenation, the
    block is delivered -/
example :
    (wireNext (runFrames (rd0, [], none) [cut1, cut2]).2.2 (runFrames (rd0, [], none) [cut1, cut2]).1 cut3).map (·.2)
      = some [0x82, 0x86, 0x84, 0x41, 1, 97] ∧
    (dfBlock (decodeFrame (runFrames (rd0, [], none) [cut1, cut2]).1 cut3).2).isSome = true :=
  ⟨fragmented_block_witness.1, fragmented_block_witness.2.2.1⟩

/-- **Once malformed, always malformed** (the repaired finding N1): when a fragment has raised the
    flag, no later fragment of the block makes `HeaderBlock::load` answer `Ok`. -/
theorem malformed_flag_survives_fragments (b : HeaderBlock) (src : Bytes) (maxList : Nat) (dec : Decoder)
    (hb : b.isMalformed = true) :
    (HeaderBlock.load b src maxList dec).2.2.2 ≠ .ok () ∧ (HeaderBlock.load b src maxList dec).1.isMalformed = true :=
  load_malformed_sticky b src maxList dec hb

example : ({ isMalformed := true } : HeaderBlock).isMalformed = true := rfl

/-- **A rule-violating field anywhere in a block is noticed by the `load` call that decodes it**: if the
    block so far stands for `fs` and the fields of `fs` plus those this call decodes violate a common
    rule, the call ends with the block flagged malformed or over-size — or with the fatal
    `HeaderListWayTooLarge`. -/
theorem violating_field_raises_flag (b : HeaderBlock) (fs : List Header) (src : Bytes) (maxList : Nat) (dec : Decoder)
    (hb : BlockInv b fs) (hok : ∀ x ∈ fs ++ loadedFields dec src, fieldOk x = true)
    (hbad : Spec.Http.common (fs ++ loadedFields dec src) ≠ []) :
    (HeaderBlock.load b src maxList dec).2.2.2 = .error .headerListWayTooLarge ∨
    (HeaderBlock.load b src maxList dec).1.isMalformed = true ∨
    (HeaderBlock.load b src maxList dec).1.isOverSize = true :=
  violating_field_flag b fs src maxList dec hb hok hbad

example : BlockInv {} [] := blockInv_empty

-- ===================================================================== 2. the stream layer: heads and trailers

/-- **Receive path for HEADERS, every state, both roles, requests, responses, interim responses,
    trailers.** Let `blk` be a delivered block standing for the field list `g` (see
    `delivered_block_obeys_common_rules`). Whatever the state `s` of the stream layer, after
    `Inner::recv_headers` every receive queue is empty, or unchanged, or has gained ONE event `ev` with
    `ValidEvent`:
    * a `request` (server only): `Spec.Http.request g = []` — NO rule is violated (since the repair of
      findings N2 / N3 without exception) — and the fields handed over are exactly the regular
      fields of `g`;
    * a `headers` / `informational` response (client only): the only rules that may be violated are
      `missing-status` (delivered as 200) and `request-pseudo-in-response` (known findings F5b, F5a);
    * `trailers`: only `pseudo-in-trailers` may be violated (known finding F5c); the fields handed over
      are exactly the regular fields of `g` (over-size trailers are refused: finding N6, repaired).
    In particular a head with a `:status` in a request, without `:method`, without `:scheme`, without or
    with an empty `:path`, CONNECT without `:authority` or with `:scheme`/`:path`, `:protocol` without
    extended CONNECT … is never queued. -/
theorem recv_headers_hands_over_only_checked_messages (s : Streams) (blk : HeaderBlock) (g : List Header)
    (sid : Nat) (eos : Bool) (hm : blk.isMalformed = false) (hb : BlockInv blk g)
    (hok : ∀ x ∈ g, fieldOk x = true) :
    Delivers (fun _ ev => ValidEvent (cfgOf s) g ev) s (s.recvHeaders (Conn.headersIn sid eos blk)).1 :=
  recvHeaders_valid s blk g sid eos hm hb hok

/-- the hypotheses are met by every block `decode_frame` delivers, and the conclusion is not vacuous:
    a valid GET is queued as a request -/
example : queuesAfter srv0 rd0 getFrame = some [[.request [71, 69, 84] [104, 116, 116, 112, 58, 47, 47, 97, 47] []]] :=
  valid_request_delivered.1

/-- … and when `Recv::recv_headers` answers anything but `Ok` (stream error, connection error,
    over-size, unsupported), NOTHING is queued anywhere — for every state and every head. -/
theorem rejected_head_queues_nothing (s : Streams) (k : Nat) (h : HeadersIn)
    (hr : (s.recvRecvHeaders k h).2.isOk = false) : Quiet s (s.recvRecvHeaders k h).1 :=
  (recvRecvHeaders_delivers s k h).2 hr

example : ((srv0.recvRecvHeaders 0 { sid := 1, eos := true, status := none }).2).isOk = false := by decide +kernel

-- ===================================================================== 3. content-length against DATA

/-- **Announced = stored.** When the reference reads a content-length `n` off the field list (every
    value non-empty, all digits, all equal) and the head is accepted on a live stream that is not a response
    to HEAD, the stream's ledger starts at `n`; and a head carrying END_STREAM is accepted only with
    `n = 0` (or status 204 / 304). -/
theorem accepted_head_sets_content_length (s : Streams) (k : Nat) (blk : HeaderBlock) (g : List Header) (sid : Nat)
    (eos : Bool) (cl0 : ContentLength) (n : Nat) (hf : blk.fields = groupInto [] (regular g))
    (live : clOf s k = some cl0) (hnh : cl0 ≠ .head) (hspec : Spec.Http.contentLength g = some (some n))
    (hok : (s.recvRecvHeaders k (Conn.headersIn sid eos blk)).2.isOk = true) :
    clOf (s.recvRecvHeaders k (Conn.headersIn sid eos blk)).1 k = some (.remaining n) ∧
    ¬(eos = true ∧ n > 0 ∧ statusNot204304 (Conn.headersIn sid eos blk) = true) :=
  accepted_head_content_length s k blk g sid eos cl0 n hf live hnh hspec hok

/-- **The code agrees with the reference on content-length.** An accepted head (live stream, not a
    response to HEAD) either carries no content-length (`Spec.Http.contentLength g = none`, ledger
    untouched) or is one for which the reference reads a number `n` — every value non-empty, all digits,
    all equal (RFC 9110 §8.6) — and `n` is what the ledger starts from; END_STREAM on the head only goes
    with 0 (or status 204 / 304). -/
theorem accepted_head_content_length_agrees (s : Streams) (k : Nat) (blk : HeaderBlock) (g : List Header) (sid : Nat)
    (eos : Bool) (cl0 : ContentLength) (hf : blk.fields = groupInto [] (regular g))
    (live : clOf s k = some cl0) (hnh : cl0 ≠ .head)
    (hok : (s.recvRecvHeaders k (Conn.headersIn sid eos blk)).2.isOk = true) :
    (Spec.Http.contentLength g = none ∧ clOf (s.recvRecvHeaders k (Conn.headersIn sid eos blk)).1 k = some cl0) ∨
    (∃ n, Spec.Http.contentLength g = some (some n) ∧
      clOf (s.recvRecvHeaders k (Conn.headersIn sid eos blk)).1 k = some (.remaining n) ∧
      ¬(eos = true ∧ n > 0 ∧ statusNot204304 (Conn.headersIn sid eos blk) = true)) :=
  accepted_head_agrees_with_reference s k blk g sid eos cl0 hf live hnh hok

/-- **An announcement the reference cannot read is refused** (findings N4a / N4b repaired): when
    `Spec.Http.contentLength g = some none` — a value empty or not all digits, or values that differ —
    `Recv::recv_headers` does not answer `Ok`; it is a stream error PROTOCOL_ERROR by
    `head_refusals_are_protocol_errors`, which fails the stream by `refused_head_fails_stream`. -/
theorem head_with_bad_content_length_is_refused (s : Streams) (k : Nat) (blk : HeaderBlock) (g : List Header)
    (sid : Nat) (eos : Bool) (cl0 : ContentLength) (hf : blk.fields = groupInto [] (regular g))
    (live : clOf s k = some cl0) (hnh : cl0 ≠ .head) (hspec : Spec.Http.contentLength g = some none) :
    (s.recvRecvHeaders k (Conn.headersIn sid eos blk)).2.isOk = false :=
  unreadable_content_length_refused s k blk g sid eos cl0 hf live hnh hspec

/-- **The one difference between reference and code, on the safe side**: when the reference reads `n` and
    no value is longer than 19 octets, every value passes `parse_u64` with `n` — the only readable
    announcements the code refuses are those of more than 19 digits (`u64`). -/
theorem readable_content_length_parses_up_to_19_digits (g : List Header) (n : Nat)
    (hspec : Spec.Http.contentLength g = some (some n))
    (hlen : ∀ v ∈ Spec.Http.get g "content-length", v.length ≤ 19) :
    Spec.Http.get g "content-length" ≠ [] ∧ ∀ v ∈ Spec.Http.get g "content-length", parseU64 v = some n :=
  spec_content_length_parses g n hspec hlen

example : Spec.Http.contentLength (fieldsOf rd0 twoClFrame) = some none ∧
    Spec.Http.contentLength (fieldsOf rd0 sameClFrame) = some (some 5) ∧
    Spec.Http.get (fieldsOf rd0 sameClFrame) "content-length" = [[53], [53]] := by decide +kernel

example : Spec.Http.get (fieldsOf rd0 twoClFrame) "content-length" = [[53], [55]] ∧ parseU64 [53] = some 5 ∧
    parseU64 [55] = some 7 ∧ parseU64 [] = none := by decide +kernel

example : Spec.Http.contentLength (fieldsOf rd0 oneClFrame) = some (some 5) ∧
    ((hdrOf rd0 oneClFrame).map fun h => clOf (rhEntry srv0 h).1 0) = some (some .omitted) ∧
    ((hdrOf rd0 oneClFrame).map fun h => ((rhEntry srv0 h).1.recvRecvHeaders 0 h).2.isOk) = some true ∧
    ((hdrOf rd0 oneClFrame).map fun h => clOf (srv0.recvHeaders h).1 0) = some (some (.remaining 5)) :=
  ⟨content_length_witness.1, content_length_witness.2.1, content_length_witness.2.2.1, content_length_witness.2.2.2.1⟩

/-- **The ledger, for all DATA length sequences.** Along every history of a stream's body — DATA
    frames that `recv_data` answered `Ok` while the stream was not being ignored, interleaved with
    arbitrary other steps that leave `content_length` alone — what is left is `announced − received`,
    and received never exceeds announced: a DATA frame beyond the content-length is not answered
    `Ok` (it is a stream error PROTOCOL_ERROR). -/
theorem body_never_exceeds_content_length {k : Nat} {s s' : Streams} {t n : Nat} (h : BodyTrace k s t s')
    (hcl : clOf s k = some (.remaining n)) : t ≤ n ∧ clOf s' k = some (.remaining (n - t)) :=
  bodyTrace_ledger h hcl

/-- **A body that ends with END_STREAM on DATA is exactly as long as announced** — short of it, the
    frame is answered with a stream error, not `Ok`. -/
theorem body_ended_by_data_is_exact {k : Nat} {s s1 : Streams} {t n : Nat} (h : BodyTrace k s t s1)
    (hcl : clOf s k = some (.remaining n)) (payload : Bytes) (pad : Option Nat)
    (hnl : (s1.stream k).state.isLocalError = false) (hok : (s1.recvRecvData k payload true pad).2 = .ok ()) :
    t + payload.length = n :=
  body_end_by_data h hcl payload pad hnl hok

/-- **A body that ends with trailers is exactly as long as announced.** -/
theorem body_ended_by_trailers_is_exact {k : Nat} {s s1 : Streams} {t n : Nat} (h : BodyTrace k s t s1)
    (hcl : clOf s k = some (.remaining n)) (hd : HeadersIn) (hok : (s1.recvRecvTrailers k hd).2 = .ok ()) : t = n :=
  body_end_by_trailers h hcl hd hok

/-- **HEAD**: every DATA frame accepted on a response to HEAD is empty. -/
theorem head_response_body_is_empty {k : Nat} {s s' : Streams} {t : Nat} (h : BodyTrace k s t s')
    (hcl : clOf s k = some .head) : t = 0 :=
  (bodyTrace_head h hcl).1

example : clOf (cli0.sendRequest true [Conn.field ":method" "HEAD", Conn.field ":scheme" "http",
    Conn.field ":authority" "example.com", Conn.field ":path" "/"] true none).1 0 = some .head := by decide +kernel

/-- non-vacuity: a request announcing 5 octets; 5 octets with END_STREAM are accepted, so `BodyTrace` with
    `t = 5 = n` is inhabited -/
example : ∃ s, clOf s 0 = some (.remaining 5) ∧ (s.stream 0).state.isLocalError = false ∧
    (s.recvRecvData 0 [104, 101, 108, 108, 111] true none).2.toOption = some () := by
  refine ⟨((hdrOf rd0 oneClFrame).map fun h => (srv0.recvHeaders h).1).getD srv0, ?_⟩
  decide +kernel

/-- **DATA is handed over only through `recv_data`'s checks**: at most one `data` event, with this
    payload, to this stream; any error answer queues nothing. -/
theorem recv_data_hands_over_only_its_payload (s : Streams) (id : Nat) (payload : Bytes) (eos : Bool) (pad : Option Nat) :
    Delivers (fun k' ev => k' = id ∧ ev = .data payload (!eos)) s (s.recvRecvData id payload eos pad).1 ∧
    (∀ e, (s.recvRecvData id payload eos pad).2 = .error e → Quiet s (s.recvRecvData id payload eos pad).1) :=
  recvRecvData_delivers s id payload eos pad


-- ===================================================================== 3b. refused messages fail the stream

/-- **"The stream (or connection) is failed instead", heads.** When `Recv::recv_headers` refuses a head
    with a stream error (every refusal of a malformed head is `library_reset(PROTOCOL_ERROR)`), the
    transition closure of `Inner::recv_headers` ends in one of two ways: the connection error
    ENHANCE_YOUR_CALM "too_many_internal_resets", or `Ok` with the stream — if it is still in the store —
    `Failed`: in the state `Closed(Error(Reset(id, reason, Library)))` (or whatever reset state it was in
    before). For every state. -/
theorem refused_head_fails_stream (s : Streams) (k : Nat) (h : HeadersIn) (i : Nat) (reason : Reason) (init : Initiator)
    (hrh : (s.stream k).state.isRecvHeaders = true) (hr : (s.recvRecvHeaders k h).2 = .state (.reset i reason init)) :
    FailsStream (s.recvRecvHeaders k h).1 k reason init (s.transition k fun s => rhBody s k h) :=
  refused_head_fails s k h i reason init hrh hr

/-- … and `Recv::recv_headers` refuses in no other way: a connection error PROTOCOL_ERROR (the frame does
    not fit the stream's state), a stream error PROTOCOL_ERROR, or a stream error REFUSED_STREAM. -/
theorem head_refusals_are_protocol_errors (s : Streams) (k : Nat) (h : HeadersIn) (e : PErr)
    (hr : (s.recvRecvHeaders k h).2 = .state e) :
    e = PErr.libraryGoAway Conn.PROTOCOL_ERROR ∨ (∃ i, e = PErr.libraryReset i Conn.PROTOCOL_ERROR) ∨
    (∃ i, e = PErr.libraryReset i REFUSED_STREAM) :=
  recvRecvHeaders_refusals s k h e hr

/-- REFUSED_STREAM is not about the message: it is answered only when the receive-stream limit has been
    reached while the (promised) stream was merely reserved (`rhRefuse`, decided before the head is looked
    at; repair of the peer-triggerable panic F31) — so every refusal of a MALFORMED head is
    PROTOCOL_ERROR. -/
theorem refused_stream_only_for_the_concurrency_limit (s : Streams) (k : Nat) (h : HeadersIn) (i : Nat)
    (hr : (s.recvRecvHeaders k h).2 = .state (PErr.libraryReset i REFUSED_STREAM)) :
    ∃ st' ini, (s.stream k).state.recvOpen h.eos h.isInformational = (st', .ok ini) ∧ rhRefuse s k st' ini = true :=
  recvRecvHeaders_refused_stream s k h i hr

/-- reachable: one pushed stream allowed, two promised, the response on the first takes the slot, the
    response on the second is refused with REFUSED_STREAM -/
example : ((hdrOf rd0 (respFrame 4)).map fun h => stateErrOf (cliLim3.streams.recvRecvHeaders 2 h).2) =
    some (some (.reset 4 REFUSED_STREAM .library)) := refused_stream_witness.1

/-- hypotheses met, conclusion visible: a request head carrying `:status` is refused that way; afterwards
    the stream is reset, RST_STREAM(PROTOCOL_ERROR) is queued and nothing was handed over -/
example :
    ((hdrOf rd0 statusReqFrame).map fun h => stateErrOf ((rhEntry srv0 h).1.recvRecvHeaders 0 h).2) =
      some (some (.reset 1 Conn.PROTOCOL_ERROR .library)) ∧
    ((hdrOf rd0 statusReqFrame).map fun h => ((rhEntry srv0 h).1.stream 0).state.isRecvHeaders) = some true :=
  ⟨status_in_request_refused.1, status_in_request_refused.2.1⟩

/-- … trailers refused with a stream error (content-length not used up) fail the stream the same way -/
theorem refused_trailers_fail_stream (s : Streams) (k : Nat) (h : HeadersIn) (i : Nat) (reason : Reason)
    (init : Initiator) (hrh : (s.stream k).state.isRecvHeaders = false) (heos : h.eos = true)
    (hr : (s.recvRecvTrailers k h).2 = .error (.reset i reason init)) :
    FailsStream (s.recvRecvTrailers k h).1 k reason init (s.transition k fun s => rhBody s k h) :=
  refused_trailers_fail s k h i reason init hrh heos hr

example : ((hdrOf rd0 oneClFrame).map fun h => ((srv0.recvHeaders h).1.stream 0).state.isRecvHeaders) = some false ∧
    ((hdrOf rd0 oneClFrame).map fun h =>
      errOf ((srv0.recvHeaders h).1.recvRecvTrailers 0 { sid := 1, eos := true, status := none }).2) =
        some (some (.reset 1 Conn.PROTOCOL_ERROR .library)) :=
  ⟨content_length_witness.2.2.2.2.1, content_length_witness.2.2.2.2.2⟩

/-- **"A body that ends short of or beyond its content-length is reported as an error", part 1**: such
    a DATA frame is never answered `Ok` … -/
theorem data_violating_content_length_is_refused (s : Streams) (k : Nat) (payload : Bytes) (eos : Bool)
    (padLen : Option Nat) (cl : ContentLength) (hk : clOf s k = some cl) (hnl : (s.stream k).state.isLocalError = false)
    (hbad : decCL cl payload.length = none ∨
      (eos = true ∧ ∀ cl', decCL cl payload.length = some cl' → zeroCL cl' = false)) :
    (s.recvRecvData k payload eos padLen).2 ≠ .ok () :=
  data_against_content_length_refused s k payload eos padLen cl hk hnl hbad

example : decCL (.remaining 5) 6 = none ∧ decCL (.remaining 5) 4 = some (.remaining 1) ∧ zeroCL (.remaining 1) = false := by
  decide

/-- … part 2: a DATA frame refused with a stream error fails the stream (or the connection) … -/
theorem refused_data_fails_stream (s : Streams) (k : Nat) (payload : Bytes) (eos : Bool) (padLen : Option Nat)
    (i : Nat) (reason : Reason) (init : Initiator) (hr : (s.recvRecvData k payload eos padLen).2 = .error (.reset i reason init)) :
    FailsStream (s.recvRecvData k payload eos padLen).1 k reason init (s.transition k fun s => rdBody s k payload eos padLen) :=
  refused_data_fails s k payload eos padLen i reason init hr

example : ((hdrOf rd0 oneClFrame).map fun h =>
    errOf ((srv0.recvHeaders h).1.recvRecvData 0 [1, 2, 3, 4, 5, 6] false none).2) =
      some (some (.reset 1 Conn.PROTOCOL_ERROR .library)) := data_against_content_length_witness.1

/-- … part 3: on a `Failed` stream (not reset before) whose receive queue is drained, `poll_data`,
    `poll_trailers` and `poll_response` all answer the reset error — never "end of stream". -/
theorem failed_stream_polls_answer_error (s : Streams) (k : Nat) (tag : String) (fuel : Nat) (st : Stream)
    (reason : Reason) (init : Initiator) (hf : Failed st reason init (s.stream k)) (hnr : st.state.isReset = false)
    (hq : (s.stream k).pendingRecv = []) :
    (∃ s', s.recvPollData k tag = (s', .err (.reset st.id reason init))) ∧
    (∃ s', s.recvPollTrailers k tag = (s', .err (.reset st.id reason init))) ∧
    (∃ s', Streams.recvPollResponse (fuel + 1) s k tag = (s', .err (.reset st.id reason init))) :=
  failed_polls s k tag fuel st reason init hf hnr hq

example : ((hdrOf rd0 statusReqFrame).map fun h => (srv0.recvHeaders h).1.store.slab.map fun st => st.state.isReset) = some [true] ∧
    ((hdrOf rd0 statusReqFrame).map fun h => (srv0.recvHeaders h).1.store.slab.map fun st => st.pendingRecv) = some [[]] ∧
    ((hdrOf rd0 statusReqFrame).map fun h => pollErr ((srv0.recvHeaders h).1.recvPollData 0 "b0").2) =
      some (some (.reset 1 Conn.PROTOCOL_ERROR .library)) :=
  ⟨status_in_request_refused.2.2.1, status_in_request_refused.2.2.2.1, refused_head_poll_witness⟩

-- ===================================================================== 3c. PUSH_PROMISE and the whole read loop

/-- **Pushes.** `Inner::recv_push_promise`, every state: all that reaches any receive queue is at most one
    `request` event for a promised request that passed `convert_poll_message` and
    `PushPromise::validate_request` (`PromiseAccepted`; in the reference's terms see
    `recv_frame_hands_over_only_valid_messages`). -/
theorem recv_push_promise_hands_over_only_checked_requests (s : Streams) (id : Nat) (h : HeadersIn) :
    Delivers (fun _ ev => PromiseAccepted h ev) s (s.recvPushPromise id h).1 :=
  recvPushPromise_delivers s id h

/-- **The connection invariant**: both handshakes establish `CInv` (the reader invariant of the codec's
    read half), and `Connection::poll` (`proto`, and the client's wrapper) keeps it, for any fuel, any
    transport content, any state. (Every other API call leaves the read half alone.) -/
theorem connection_invariant (g : Conn.Cfg) (ecp : Bool) (peerFirst : Bytes) :
    CInv (Conn.init g) ∧ CInv (Conn.initServer g ecp peerFirst) ∧
    (∀ fuel c, CInv c → CInv (Conn.protoPoll fuel c).1) ∧ (∀ fuel c, CInv c → CInv (Conn.clientPoll fuel c).1) :=
  ⟨init_cinv g, initServer_cinv g ecp peerFirst, protoPoll_cinv, clientPoll_cinv⟩

/-- **`poll_next` yields good frames only**: under the invariant, a frame it yields carries — if it is a
    HEADERS or PUSH_PROMISE frame — an unflagged block that stands for a list of fields that passed
    HPACK. -/
theorem poll_next_yields_good_frames (fuel : Nat) (c : Codec) (tag : String) (h : RInv' c.r) :
    RInv' (pollNext fuel c tag).1.r ∧ ∀ f, (pollNext fuel c tag).2 = .frame f → GoodFrame f :=
  pollNext_good fuel c tag h

example : RInv' (Conn.init {}).codec.r := init_cinv {}

/-- **One turn of the read loop, every connection state, every frame type** (`none` = end of input):
    for a frame as `poll_next` yields it, everything `DynConnection::recv_frame` puts into any receive
    queue is ONE event satisfying `ValidFrameEvent`: for HEADERS a `ValidEvent` (see
    `recv_headers_hands_over_only_checked_messages`), for DATA its own payload, for PUSH_PROMISE a GET /
    HEAD request obeying every rule of `Spec.Http.request`; RST_STREAM,
    SETTINGS, PING, GOAWAY, WINDOW_UPDATE, PRIORITY and end of input hand over nothing. -/
theorem recv_frame_hands_over_only_valid_messages (c : Conn) (f : Option Frame.Frame)
    (hgood : ∀ fr, f = some fr → GoodFrame fr) :
    Delivers (fun _ ev => ValidFrameEvent (cfgOf c.streams) f ev) c.streams (c.recvFrame f).1.streams :=
  recvFrame_valid c f hgood

example : GoodFrame (.data 1 [1, 2, 3] false none) := fun _ hb => by cases hb

-- ===================================================================== 4. the send side

/-- **The send API refuses connection-specific fields and a leading `te` ≠ trailers, before touching
    anything**: `check_headers` answers only `MalformedHeaders`, and on that answer `send_headers`
    (requests and responses), `send_trailers`, `send_interim_informational_headers` return the state
    unchanged. -/
theorem send_api_refuses_untouched (s : Streams) (id : Nat) (eos : Bool) (fields : List Hpack.Field) (e : UserError)
    (h : Streams.checkHeaders fields = .error e) :
    e = .malformedHeaders ∧ s.sendHeaders id eos fields = (s, .error e) ∧ s.sendTrailers id fields = (s, .error e) ∧
    s.sendInterimInformationalHeaders id fields = (s, .error e) :=
  ⟨checkHeaders_err fields e h, sendHeaders_refuses s id eos fields e h, sendTrailers_refuses s id fields e h,
    sendInterim_refuses s id fields e h⟩

example : (Streams.checkHeaders [Conn.field "connection" "close"]).toOption = none := by decide +kernel

/-- **What the send API accepts** (request, response, interim response, trailers, push promise) has no
    connection-specific field and no `te` field other than `trailers` at all (since the repair of finding
    N5 every `te` value is looked at). -/
theorem send_api_accepts_only_checked (fields : List Hpack.Field)
    (h : (∃ s id eos, (Streams.sendHeaders s id eos fields).2 = .ok ()) ∨
         (∃ s id, (Streams.sendTrailers s id fields).2 = .ok ()) ∨
         (∃ s id, (Streams.sendInterimInformationalHeaders s id fields).2 = .ok ()) ∨
         (∃ s p pk pid, (Streams.sendPushPromise s p pk pid fields).2 = .ok ()) ∨
         (∃ s isHead eos p r, (Streams.sendRequest s isHead fields eos p).2 = .ok r)) :
    "connection-specific-field" ∉ Spec.Http.common (wireFields fields) ∧
    "te-not-trailers" ∉ Spec.Http.common (wireFields fields) ∧
    (∀ f ∈ fields, f.h.1 = Spec.Http.ascii "te" → f.h.2 = Spec.Http.ascii "trailers") :=
  send_accepts_checked fields h

example : ∃ r, (cli0.sendRequest false [Conn.field ":method" "GET", Conn.field ":scheme" "http",
    Conn.field ":authority" "example.com", Conn.field ":path" "/"] true none).2.toOption = some r :=
  ⟨(0, false), by decide +kernel⟩

-- ===================================================================== 5. witnesses on concrete wire bytes: what does NOT hold (F5a–c, F8), and regressions of the repaired findings

/-- N2 (found here, since repaired): CONNECT without `:authority` — formerly handed to the application —
    is refused: nothing queued, stream reset, RST_STREAM(PROTOCOL_ERROR) queued -/
theorem connect_without_authority_rejected :
    Spec.Http.request (fieldsOf rd0 connectOnly) false = ["connect-without-authority"] ∧
    queuesAfter srv0 rd0 connectOnly = some [[]] ∧ resetsAfter srv0 rd0 connectOnly = some [true] ∧
    sendQueuesAfter srv0 rd0 connectOnly = some [[.reset Conn.PROTOCOL_ERROR]] :=
  H2V.Lemmas.ConnHttpP.connect_without_authority_rejected

/-- N3 (found here, since repaired): a GET with `:scheme` only — no `:path`, no `:authority` — is refused -/
theorem get_without_path_rejected :
    Spec.Http.request (fieldsOf rd0 getSchemeOnly) false = ["missing-path"] ∧
    queuesAfter srv0 rd0 getSchemeOnly = some [[]] ∧ resetsAfter srv0 rd0 getSchemeOnly = some [true] ∧
    sendQueuesAfter srv0 rd0 getSchemeOnly = some [[.reset Conn.PROTOCOL_ERROR]] :=
  H2V.Lemmas.ConnHttpP.get_without_path_rejected

/-- F5b (known): a response without `:status` is delivered as 200 -/
theorem response_without_status_counterexample :
    queuesAfter cli1 rd0 noStatusResp = some [[.headers [50, 48, 48] [([120, 45, 97], [[49]])]]] ∧
    Spec.Http.response (fieldsOf rd0 noStatusResp) = ["missing-status"] :=
  H2V.Lemmas.ConnHttpP.response_without_status_counterexample

/-- F5a (known): a response carrying `:path` is delivered -/
theorem response_with_request_pseudo_counterexample :
    queuesAfter cli1 rd0 pathResp = some [[.headers [50, 48, 48] []]] ∧
    Spec.Http.response (fieldsOf rd0 pathResp) = ["request-pseudo-in-response"] :=
  H2V.Lemmas.ConnHttpP.response_with_request_pseudo_counterexample

/-- F5c (known): trailers carrying `:status` are delivered -/
theorem trailers_with_pseudo_counterexample :
    ((hdrOf rd0 okResp).bind fun h => queuesAfter (cli1.recvHeaders h).1 (decodeFrame rd0 okResp).1 statusTrailers)
      = some [[.headers [50, 48, 48] [], .trailers []]] ∧
    Spec.Http.trailers (fieldsOf (decodeFrame rd0 okResp).1 statusTrailers) = ["pseudo-in-trailers"] :=
  H2V.Lemmas.ConnHttpP.trailers_with_pseudo_counterexample

/-- N4a (found here, since repaired): two different `content-length` values — formerly the first counted —
    are refused -/
theorem two_content_lengths_rejected :
    Spec.Http.contentLength (fieldsOf rd0 twoClFrame) = some none ∧
    queuesAfter srv0 rd0 twoClFrame = some [[]] ∧ resetsAfter srv0 rd0 twoClFrame = some [true] ∧
    sendQueuesAfter srv0 rd0 twoClFrame = some [[.reset Conn.PROTOCOL_ERROR]] :=
  H2V.Lemmas.ConnHttpP.two_content_lengths_rejected

/-- N4b (found here, since repaired): an empty `content-length` value — formerly read as 0 — is refused -/
theorem empty_content_length_rejected :
    Spec.Http.contentLength (fieldsOf rd0 emptyClFrame) = some none ∧ parseU64 [] = none ∧
    queuesAfter srv0 rd0 emptyClFrame = some [[]] ∧ resetsAfter srv0 rd0 emptyClFrame = some [true] :=
  H2V.Lemmas.ConnHttpP.empty_content_length_rejected

/-- a REPEATED content-length with equal values (RFC 9110 §8.6): reference and code agree — the reference
    reads 5, the head is accepted, the ledger starts at 5 -/
theorem repeated_equal_content_length_agrees :
    Spec.Http.contentLength (fieldsOf rd0 sameClFrame) = some (some 5) ∧
    ((hdrOf rd0 sameClFrame).map fun h => clOf (srv0.recvHeaders h).1 0) = some (some (.remaining 5)) ∧
    ((queuesAfter srv0 rd0 sameClFrame).map fun q => q.map (·.length)) = some [1] :=
  H2V.Lemmas.ConnHttpP.repeated_equal_content_length_agrees

/-- N6 (found here, since repaired): trailers beyond SETTINGS_MAX_HEADER_LIST_SIZE — formerly handed over
    without the fields that did not fit — are refused: no `trailers` event, stream reset PROTOCOL_ERROR -/
theorem oversize_trailers_rejected :
    ((hdrOf rd200 postFrame).bind fun h =>
      (hdrOf (decodeFrame rd200 postFrame).1 bigTrailers).map fun t =>
        (t.isOverSize, ((srv0.recvHeaders h).1.recvHeaders t).1.store.slab.map fun st =>
          (st.state.isReset, st.pendingRecv.length))) = some (true, [(true, 1)]) ∧
    ((hdrOf rd200 postFrame).bind fun h =>
      (hdrOf (decodeFrame rd200 postFrame).1 bigTrailers).map fun t =>
        ((srv0.recvHeaders h).1.recvHeaders t).1.store.slab.map fun st => st.pendingSend) =
      some [[.reset Conn.PROTOCOL_ERROR]] ∧
    (ghostNext [] (decodeFrame rd200 postFrame).1 bigTrailers).map (·.1) = [[120, 45, 97], [120, 45, 98]] :=
  H2V.Lemmas.ConnHttpP.oversize_trailers_rejected

/-- N5 (found here, since repaired): `te: trailers` followed by `te: gzip` — formerly emitted — is refused
    by `check_headers` -/
theorem send_second_te_rejected :
    (Streams.checkHeaders [Conn.field "te" "trailers", Conn.field "te" "gzip"]).toOption = none ∧
    (Streams.checkHeaders [Conn.field "te" "trailers", Conn.field "te" "trailers"]).toOption = some () ∧
    Spec.Http.common (wireFields [Conn.field "te" "trailers", Conn.field "te" "gzip"]) = ["te-not-trailers"] :=
  H2V.Lemmas.ConnHttpP.send_second_te_rejected

/-- F8 (known by reading): the send side does not hold DATA against its own content-length -/
theorem send_body_beyond_content_length_counterexample :
    let r := cli0.sendRequest false [Conn.field ":method" "POST", Conn.field ":scheme" "http",
      Conn.field ":authority" "example.com", Conn.field ":path" "/", Conn.field "content-length" "5"] false none
    r.2.toOption = some (0, false) ∧ (r.1.refSendData 0 10 true).2.toOption = some () ∧
      (r.1.refSendData 0 0 true).2.toOption = some () :=
  H2V.Lemmas.ConnHttpP.send_body_beyond_content_length_counterexample

/-- N1 (found here, since repaired): the block with `connection: close` cut inside the following field is
    now refused with a stream error PROTOCOL_ERROR -/
theorem split_malformed_block_rejected :
    dfErr (decodeFrame (decodeFrame rd0 splitMalformed1).1 splitMalformed2).2 = some (.reset 1 CodecRead.PROTOCOL_ERROR) ∧
    Spec.Http.common (ghostNext (ghostNext [] rd0 splitMalformed1) (decodeFrame rd0 splitMalformed1).1 splitMalformed2)
      = ["connection-specific-field"] :=
  H2V.Lemmas.ConnHttpP.split_malformed_block_rejected

end H2V.Props.C13

#print axioms H2V.Props.C13.reader_invariant_reachable
#print axioms H2V.Props.C13.hpack_hands_over_wellformed_fields_only
#print axioms H2V.Props.C13.delivered_block_obeys_common_rules
#print axioms H2V.Props.C13.delivered_block_is_decoding_of_concatenated_fragments
#print axioms H2V.Props.C13.malformed_flag_survives_fragments
#print axioms H2V.Props.C13.violating_field_raises_flag
#print axioms H2V.Props.C13.recv_headers_hands_over_only_checked_messages
#print axioms H2V.Props.C13.rejected_head_queues_nothing
#print axioms H2V.Props.C13.accepted_head_sets_content_length
#print axioms H2V.Props.C13.accepted_head_content_length_agrees
#print axioms H2V.Props.C13.head_with_bad_content_length_is_refused
#print axioms H2V.Props.C13.readable_content_length_parses_up_to_19_digits
#print axioms H2V.Props.C13.body_never_exceeds_content_length
#print axioms H2V.Props.C13.body_ended_by_data_is_exact
#print axioms H2V.Props.C13.body_ended_by_trailers_is_exact
#print axioms H2V.Props.C13.head_response_body_is_empty
#print axioms H2V.Props.C13.recv_data_hands_over_only_its_payload
#print axioms H2V.Props.C13.refused_head_fails_stream
#print axioms H2V.Props.C13.head_refusals_are_protocol_errors
#print axioms H2V.Props.C13.refused_stream_only_for_the_concurrency_limit
#print axioms H2V.Props.C13.refused_trailers_fail_stream
#print axioms H2V.Props.C13.data_violating_content_length_is_refused
#print axioms H2V.Props.C13.refused_data_fails_stream
#print axioms H2V.Props.C13.failed_stream_polls_answer_error
#print axioms H2V.Props.C13.recv_push_promise_hands_over_only_checked_requests
#print axioms H2V.Props.C13.connection_invariant
#print axioms H2V.Props.C13.poll_next_yields_good_frames
#print axioms H2V.Props.C13.recv_frame_hands_over_only_valid_messages
#print axioms H2V.Props.C13.send_api_refuses_untouched
#print axioms H2V.Props.C13.send_api_accepts_only_checked
#print axioms H2V.Props.C13.connect_without_authority_rejected
#print axioms H2V.Props.C13.get_without_path_rejected
#print axioms H2V.Props.C13.response_without_status_counterexample
#print axioms H2V.Props.C13.response_with_request_pseudo_counterexample
#print axioms H2V.Props.C13.trailers_with_pseudo_counterexample
#print axioms H2V.Props.C13.two_content_lengths_rejected
#print axioms H2V.Props.C13.empty_content_length_rejected
#print axioms H2V.Props.C13.repeated_equal_content_length_agrees
#print axioms H2V.Props.C13.oversize_trailers_rejected
#print axioms H2V.Props.C13.send_second_te_rejected
#print axioms H2V.Props.C13.send_body_beyond_content_length_counterexample
#print axioms H2V.Props.C13.split_malformed_block_rejected
