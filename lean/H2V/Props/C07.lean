import H2V.Lemmas.ConnWakePGoAway
/-
  C07 — when a connection ends, every outstanding handle resolves: nothing hangs.
  Property theorems only; lemmas and definitions in `H2V/Lemmas/ConnWakeP*.lean` (see ConnWakePNOTES.md).

  Vocabulary (all about the frozen model `H2V/Model/Conn*.lean`, a line-by-line mirror of
  `src/proto/streams/*` and `src/proto/connection.rs`):
    `Streams`            the shared state behind the `Mutex` (`streams::Inner` + `SendBuffer`)
    `s.recvEof b`        `Inner::recv_eof` — what EOF on the transport AND `Drop for Connection` run
    `s.handleError e`    `Inner::handle_error` — I/O error, fatal protocol error, `abrupt_shutdown`, GOAWAY sent
    `Resolved a`         stream entry `a` is `Closed` and none of `send_task / open_task / recv_task / push_task` is occupied
    `Keep a a'`          `a'` has the receive queue, reference count and "END_STREAM received" of `a`
    `EndedAt s s' k a`   the entry `a` that was at key `k` in `s` is, in `s'`, released (no handle left) or
                         `Resolved`, `Keep`-related to `a`, and every tag that was parked on `a` is in the
                         part of the wake log written between `s` and `s'`
    `Good s`             the store invariant (keys unique, id map is a map onto live entries) — holds in
                         every state reachable by the model's operations (`reachable_good`)
    `Step none s s'`     the frame relation every non-`poll_*` operation satisfies (C06)
-/
namespace H2V.Props.C07
open H2V H2V.Model H2V.Model.Conn H2V.Lemmas.ConnWakeP H2V.Lemmas.Comp

/-- **EOF / dropped connection.**  After `Inner::recv_eof` — run when the transport reports EOF and by
    `Drop for Connection` however the connection ended — the connection error is set, and EVERY stream
    that the id map knew is released or closed with all four waker slots empty, every waker that was
    parked on it (response future, body/trailers reader, capacity/reset waiter, `poll_ready`, pushed
    streams) has been woken, and its receive queue, handle count and END_STREAM flag are untouched.
    For every state with the store invariant (i.e. every reachable state), whatever is queued, however
    many streams, whatever their states. -/
theorem recv_eof_resolves_every_linked_stream (s : Streams) (h : Good s) (clearPendingAccept : Bool) :
    (s.recvEof clearPendingAccept).actions.connError.isSome = true ∧
    ∀ e ∈ s.store.ids, ∀ a, s.store.get? e.2 = some a → EndedAt s (s.recvEof clearPendingAccept) e.2 a :=
  recvEof_all s h.ids h.bounded clearPendingAccept

/-- **I/O error, fatal protocol error, abrupt shutdown.**  The same for `Inner::handle_error(err)`, and
    `conn_error` is exactly `err` afterwards. -/
theorem handle_error_resolves_every_linked_stream (s : Streams) (h : Good s) (err : PErr) :
    (s.handleError err).1.actions.connError = some err ∧
    ∀ e ∈ s.store.ids, ∀ a, s.store.get? e.2 = some a → EndedAt s (s.handleError err).1 e.2 a :=
  handleError_all s h.ids h.bounded err

/-- **GOAWAY received.**  After `Inner::recv_go_away(last_stream_id)` (accepted: `Ok`) `conn_error` is the remote
    GOAWAY — so no new request is accepted (`send_request_refused_after_end`) — and every locally
    initiated stream ABOVE `last_stream_id` that the id map knew is released or closed with all parked
    wakers woken (it will never be processed by the peer), its receive queue / handles / END_STREAM flag
    untouched.  (Streams at or below `last_stream_id` go on; they are resolved by their own completion
    or by the later end of the connection.) -/
theorem goaway_received_resolves_streams_above_last_id (s s' : Streams) (h : Good s) (last : Nat) (r : Reason)
    (d : Bytes) (hok : s.recvGoAwayFrame last r d = (s', .ok ())) :
    s'.actions.connError = some (PErr.remoteGoAway d r) ∧
    ∀ e ∈ s.store.ids, e.1 > last → s.counts.isLocalInit e.1 = true →
      ∀ a, s.store.get? e.2 = some a → EndedAt s s' e.2 a :=
  recvGoAwayFrame_all s s' h last r d hok

example : (exOpen.recvGoAwayFrame 0 0 []).2 = .ok () ∧ exOpen.counts.isLocalInit 1 = true ∧
    (exOpen.recvGoAwayFrame 0 0 []).1.wakes = ["s0", "p0"] := by
  refine ⟨by decide, by decide, by decide⟩

/-- non-vacuity: a state with a linked open stream, a parked response future `p0` and a parked
    capacity waiter `s0`; `recv_eof` wakes both and closes the stream -/
example : Good exOpen ∧ exOpen.store.ids = [(1, 0)] ∧ (exOpen.recvEof true).wakes = ["s0", "p0"] ∧
    ((exOpen.recvEof true).stream 0).state.isClosed = true := by
  refine ⟨exOpen_good, by decide, by decide, by decide⟩

/-- **Nothing waits on a closed stream** (1): `poll_capacity` is `Ready(None)`. -/
theorem poll_capacity_ready_when_closed (s : Streams) (k : Nat) (tag : String)
    (h : (s.stream k).state.isClosed = true) : s.pollCapacity k tag = (s, .none) :=
  pollCapacity_closed h

/-- (2) `poll_data` never answers `Pending`; (3) neither does `poll_trailers` once the queue is drained;
    (4) nor `poll_response` (with the fuel the driver gives it: queue length + 1). -/
theorem recv_polls_ready_when_closed (s : Streams) (k : Nat) (tag : String)
    (h : (s.stream k).state.isClosed = true) :
    (∀ s', s.recvPollData k tag ≠ (s', .pending)) ∧
    ((s.stream k).pendingRecv = [] → ∀ s', s.recvPollTrailers k tag ≠ (s', .pending)) ∧
    (∀ s', Streams.recvPollResponse ((s.stream k).pendingRecv.length + 1) s k tag ≠ (s', .pending)) := by
  obtain ⟨a, ha, hst⟩ := get?_of_closed h
  refine ⟨recvPollData_closed h, recvPollTrailers_closed h, ?_⟩
  rw [hst] at h ⊢
  exact recvPollResponse_closed _ ha (Nat.lt_succ_self _) h

/-- (5) `poll_reset` is `Ready` on a closed stream — EXCEPT when the stream ended cleanly
    (`Closed(EndStream)`): see `poll_reset_after_clean_end_hangs_counterexample`. -/
theorem poll_reset_ready_when_closed_partial (s : Streams) (k : Nat) (mode : PollReset) (tag : String)
    (h : (s.stream k).state.isClosed = true) (he : (s.stream k).state.inner ≠ .closed .endStream) :
    (s.pollReset k mode tag).2 ≠ .ok none ∧ (s.pollReset k mode tag).1 = s :=
  pollReset_closed h he

example : (W1.w3.stream 0).state.isClosed = true := by decide

/-- **FINDING (recorded as F28).**  Full-strength C07 for reset waits FAILS: a stream that ended cleanly
    (request and response complete) keeps its `SendStream::poll_reset` waiter parked for ever — also
    after the connection died and was dropped: `ensure_reason` says `Ok(None)` for `Closed(EndStream)`,
    and `recv_eof`/`handle_error` only walk the id map, from which the closed stream was unlinked.
    The state is reached from `Conn.init {}` through the model's API (see `ConnWakePFindings.lean`) and
    on the real code. -/
theorem poll_reset_after_clean_end_hangs_counterexample :
    W1.w5.actions.connError.isSome = true ∧ W1.w5.wakes = [] ∧ (W1.w5.stream 0).sendTask = some "s0" ∧
    (W1.w5.pollReset 0 .streaming "s0").2 = .ok none :=
  W1.pollReset_endStream_hangs_counterexample

/-- **No new work after the end.**  Once `conn_error` is set (`recv_eof`, `handle_error`, GOAWAY received)
    `SendRequest::poll_ready` and `send_request` answer `Ready(Err(conn_error))`, whatever the pending
    stream, the request, the limits. -/
theorem send_request_refused_after_end (s : Streams) (e : PErr) (h : s.actions.connError = some e)
    (p : Option Nat) (tag : String) (isHead : Bool) (f : List Hpack.Field) (eos : Bool) :
    s.pollPendingOpen p tag = (s, .error (.proto e)) ∧ s.sendRequest isHead f eos p = (s, .error (.proto e)) :=
  ⟨pollPendingOpen_connError p tag h, sendRequest_connError isHead f eos p h⟩

example : (exOpen.recvEof true).actions.connError.isSome = true := by decide

/-- **A complete message survives the end.**  A stream that had received END_STREAM keeps that fact through
    `State::recv_eof` / `handle_error` (the state becomes `Closed(ErrorAfterEndStream)` or stays
    `Closed(EndStream)`), the teardown keeps its receive queue (`Keep` in `EndedAt`), buffered DATA is
    handed out first, and when the queue is drained `poll_data` reports a clean end, not an error. -/
theorem complete_message_still_delivered (s : Streams) (k : Nat) (tag : String)
    (h : (s.stream k).state.isRecvEndStream = true) :
    (∀ p b rest, (s.stream k).pendingRecv = .data p b :: rest → (s.recvPollData k tag).2 = .data p b) ∧
    ((s.stream k).pendingRecv = [] → s.recvPollData k tag = (s, .none)) :=
  ⟨fun _ _ _ hq => recvPollData_data hq, fun hq => recvPollData_eos_end h hq⟩

/-- non-vacuity: response with DATA + END_STREAM buffered, stream `Closed(EndStream)` -/
example : (W2.w5.stream 0).state.isRecvEndStream = true ∧ (W2.w5.stream 0).pendingRecv = [.data [1, 2, 3] false] := by decide

/-- **Closed stays closed, woken stays woken.**  Whatever the connection task or any handle does next (any
    non-`poll_*` operation with any arguments), a stream entry that is `Closed` stays `Closed` (or is
    released), and `conn_error` stays set: the answers above remain valid for every later poll. -/
theorem closed_is_forever (op : Op) (s : Streams) (hb : KeysBounded s.store) (k : Nat) (a : Stream)
    (ha : s.store.get? k = some a) (hc : a.state.isClosed = true) :
    ((op.apply s).store.get? k = none ∨ ∃ b, (op.apply s).store.get? k = some b ∧ b.state.isClosed = true) ∧
    (s.actions.connError.isSome = true → (op.apply s).actions.connError.isSome = true) := by
  refine ⟨?_, (op.step s).connError⟩
  rcases (op.step s).keep k a (hb.get? ha) ha with h | ⟨b, hb', hab⟩
  · exact Or.inl h
  · exact Or.inr ⟨b, hb', hab.closed hc⟩

example : KeysBounded W1.w3.store ∧ (W1.w3.store.get? 0).isSome = true ∧ (W1.w3.stream 0).state.isClosed = true := by
  refine ⟨fun a ha => ?_, by decide, by decide⟩
  have : W1.w3.store.slab.all (fun a => decide (a.key < W1.w3.store.nextKey)) = true := by decide
  exact of_decide_eq_true (List.all_eq_true.mp this a ha)

/-- **The store invariant is not a restriction**: it holds in the initial state of both roles and is kept
    by every operation (35 non-`poll_*` operations and 8 `poll_*`/parking operations, any arguments),
    hence in every reachable state; so the two theorems at the top apply to every reachable state. -/
theorem store_invariant_reachable (s : Streams) (h : Reachable s) : Good s := reachable_good h

theorem recv_eof_resolves_every_linked_stream_reachable (s : Streams) (h : Reachable s) (clearPendingAccept : Bool) :
    (s.recvEof clearPendingAccept).actions.connError.isSome = true ∧
    ∀ e ∈ s.store.ids, ∀ a, s.store.get? e.2 = some a → EndedAt s (s.recvEof clearPendingAccept) e.2 a :=
  recv_eof_resolves_every_linked_stream s (reachable_good h) clearPendingAccept

/-- non-vacuity: the client state after one `send_request` is reachable and has a linked stream -/
example : Reachable W1.w1 ∧ W1.w1.store.ids = [(1, 0)] :=
  ⟨Reachable.op (.sendRequest false [] true none) (.client {}), by decide⟩

/-- **The connection future completes.**  In state `Closed` `Connection::poll` is `Ready` (with the error
    `take_error` computes) on every poll; in state `Closing` it is `Ready` one step later as soon as the
    transport lets `shutdown` (final flush + `poll_shutdown`) finish, and until then the task is parked on
    the transport's write waker. -/
theorem connection_future_completes (n : Nat) (c : Conn) (r : Reason) (i : Initiator) :
    (c.state = .closed r i → Conn.protoPoll (n + 1) c = ((c.takeError r i).1, .ready (c.takeError r i).2)) ∧
    (c.state = .closing r i → ∀ w io, shutdownW c.codec.w c.codec.io c.cx = (w, io, .ready) →
      ∃ c', Conn.protoPoll (n + 2) c =
        (c', .ready (({ c with codec := { c.codec with w := w, io := io }, state := .closed r i } : Conn).takeError r i).2)) ∧
    (c.state = .closing r i → ∀ c', Conn.protoPoll (n + 2) c = (c', .pending) → c'.codec.io.writeWaker = some c.cx) :=
  ⟨protoPoll_closed n c r i, fun h w io hs => protoPoll_closing n c r i h w io hs,
   fun h c' hp => protoPoll_closing_pending n c c' r i h hp⟩

example : ({ state := .closed 0 .library } : Conn).state = .closed 0 .library := rfl

/-- **Dropping the connection resolves everything.**  After `Drop for Connection` (`recv_eof(true)`) and the
    drop of the `SendRequest` handles — in whatever state the connection was: mid-exchange, after an
    error, after GOAWAY, never polled — every stream the id map knew is released or `Resolved` and every
    waker parked on it was woken; and the ping handle: the pong waiter is woken and every later
    `poll_pong` is `Ready(Err(BrokenPipe))`. -/
theorem drop_connection_resolves_everything (c : Conn) (sr : Option SendRequest) (clones : List SendRequest)
    (hg : Good c.streams) :
    (∀ e ∈ c.streams.store.ids, ∀ a, c.streams.store.get? e.2 = some a →
      (dropConnKind c sr clones).streams.store.get? e.2 = none ∨
      ∃ a', (dropConnKind c sr clones).streams.store.get? e.2 = some a' ∧ Resolved a' ∧
        ∀ t, (a.sendTask = some t ∨ a.openTask = some t ∨ a.recvTask = some t ∨ a.pushTask = some t) →
          t ∈ newWakes c.streams (dropConnKind c sr clones).streams) ∧
    (∀ u, c.pingPong.userPings = some u → ∀ tag,
      (∀ t, u.pongTask = some t → t ∈ newWakes c.streams c.dropUserPingsRx.streams) ∧
      (c.dropUserPingsRx.userPollPong tag).2 = some false) :=
  ⟨dropConnKind_resolves c sr clones hg, fun u hu tag => dropUserPingsRx_resolves c u hu tag⟩

example : Good (Conn.init {}).streams := init_good {}

end H2V.Props.C07

#print axioms H2V.Props.C07.recv_eof_resolves_every_linked_stream
#print axioms H2V.Props.C07.handle_error_resolves_every_linked_stream
#print axioms H2V.Props.C07.goaway_received_resolves_streams_above_last_id
#print axioms H2V.Props.C07.poll_capacity_ready_when_closed
#print axioms H2V.Props.C07.recv_polls_ready_when_closed
#print axioms H2V.Props.C07.poll_reset_ready_when_closed_partial
#print axioms H2V.Props.C07.poll_reset_after_clean_end_hangs_counterexample
#print axioms H2V.Props.C07.send_request_refused_after_end
#print axioms H2V.Props.C07.complete_message_still_delivered
#print axioms H2V.Props.C07.closed_is_forever
#print axioms H2V.Props.C07.store_invariant_reachable
#print axioms H2V.Props.C07.recv_eof_resolves_every_linked_stream_reachable
#print axioms H2V.Props.C07.connection_future_completes
#print axioms H2V.Props.C07.drop_connection_resolves_everything
