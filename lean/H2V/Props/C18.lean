import H2V.Lemmas.ConnCountsPLocal
import H2V.Lemmas.ConnCountsPWitness
import H2V.Lemmas.CompBasic
import H2V.Lemmas.ConnCountsPQueueR
import H2V.Lemmas.ConnCountsPConn
/-
  C18 — per-connection state is bounded by configuration, whatever the peer does.
  Property theorems only (lemmas: `H2V/Lemmas/ConnCountsP*.lean`, notes: `ConnCountsPNOTES.md`).
  The theorems are about the executable model `H2V/Model/Conn*.lean` of h2's stream layer
  (validated line by line against the real code, see `Model/ConnNOTES.md`).
-/
namespace H2V.Props.C18
open H2V H2V.Model H2V.Model.Conn H2V.Lemmas.ConnCountsP

/-- **Rapid open-and-reset is cut off.**  A RST_STREAM of the peer for a stream the application has
    not accepted yet (`is_pending_accept`) when `max_pending_accept_reset_streams` such streams are
    already waiting: the connection dies with `GOAWAY(ENHANCE_YOUR_CALM, "too_many_resets")` and the
    stream layer is left exactly as it was (nothing more is remembered). -/
theorem reset_flood_is_cut_off (s : Streams) (k : Nat) (r : Reason)
    (hp : (s.stream k).isPendingAccept = true) (h : s.counts.canIncNumRemoteResetStreams = false) :
    s.recvRecvReset k r = (s, .error (PErr.libraryGoAwayData ENHANCE_YOUR_CALM "too_many_resets")) :=
  recvRecvReset_at_limit s k r hp h

/-- non-vacuity: quota 1, one reset stream waiting for `accept`, a second one arrives -/
example : let s : Streams := { counts := { maxRemoteResetStreams := 1, numRemoteResetStreams := 1 },
                               store := { slab := [{ key := 0, id := 1, isPendingAccept := true }], ids := [(1, 0)], nextKey := 1 } }
    (s.stream 0).isPendingAccept = true ∧ s.counts.canIncNumRemoteResetStreams = false := by decide

/-- **Provoked stream errors are cut off.**  When `max_local_error_reset_streams` (1024 by default)
    stream errors have been answered with RST_STREAM, the next one is not answered any more: it
    becomes the connection error `GOAWAY(ENHANCE_YOUR_CALM, "too_many_internal_resets")`, no frame is
    queued, nothing is remembered. -/
theorem error_reset_flood_is_cut_off (s : Streams) (k sid : Nat) (r : Reason) (i : Initiator)
    (h : s.counts.canIncNumLocalErrorResets = false) :
    s.resetOnRecvStreamErr k (.error (.reset sid r i)) =
      (s, .error (PErr.libraryGoAwayData ENHANCE_YOUR_CALM "too_many_internal_resets")) :=
  resetOnRecvStreamErr_at_limit s k sid r i h

/-- non-vacuity -/
example : ({ counts := { maxLocalErrorResetStreams := some 2, numLocalErrorResetStreams := 2 } } : Streams).counts.canIncNumLocalErrorResets = false := by decide

/-- **The memory of locally reset streams is bounded.**  `Recv::enqueue_reset_expiration` — the only
    code that increments `num_local_reset_streams` — never lets it pass `max_concurrent_reset_streams`. -/
theorem reset_memory_is_bounded (s : Streams) (k : Nat)
    (h : s.counts.numLocalResetStreams ≤ s.counts.maxLocalResetStreams) :
    (s.enqueueResetExpiration k).counts.numLocalResetStreams ≤ (s.enqueueResetExpiration k).counts.maxLocalResetStreams :=
  enqueueResetExpiration_bound s k h

/-- non-vacuity: the initial counters -/
example : ({} : Streams).counts.numLocalResetStreams ≤ ({} : Streams).counts.maxLocalResetStreams := by decide

/-- **A flood of small DATA frames is cut off.**  `recordAll c l` feeds the payload lengths `l` of
    DATA frames without END_STREAM through `Counts::record_data_frame` (`none` = `BudgetExhausted`,
    which `recv_data` turns into `GOAWAY(ENHANCE_YOUR_CALM, "too_many_data_frames")`).  If all frames
    are non-empty and below the overhead threshold (256 octets) and their total overhead
    `Σ (256 − len)` exceeds what is left of the budget, the sequence is not accepted — however the
    application reads in between is irrelevant here: nothing is given back inside `recordAll`. -/
theorem tiny_data_flood_is_cut_off (c : Counts) (l : List Nat)
    (hl : ∀ n ∈ l, n ≠ 0 ∧ n < Generated.Consts.DEFAULT_DATA_FRAME_OVERHEAD_THRESHOLD)
    (hb : c.dataFrameBudget.available < tinyCost l) : recordAll c l = none :=
  tiny_data_flood l c hl hb

/-- non-vacuity: 101 one-octet frames against the default budget of 25600 (cost 255 each) -/
example : (∀ n ∈ List.replicate 101 1, n ≠ 0 ∧ n < Generated.Consts.DEFAULT_DATA_FRAME_OVERHEAD_THRESHOLD) ∧
    ({} : Counts).dataFrameBudget.available < tinyCost (List.replicate 101 1) := by decide

/-- **Empty DATA frames are counted and cut off.**  Once `MAX_RECV_EMPTY_DATA_FRAMES` (100) empty
    DATA frames without END_STREAM have been seen on the connection, the next one is refused; the
    counter never goes down. -/
theorem empty_data_flood_is_cut_off (c : Counts) (h : Generated.Consts.MAX_RECV_EMPTY_DATA_FRAMES ≤ c.numRecvEmptyDataFrames) :
    (c.recordDataFrame 0).2 = false ∧ ∀ n, c.numRecvEmptyDataFrames ≤ (c.recordDataFrame n).1.numRecvEmptyDataFrames :=
  ⟨empty_data_flood c h, empty_counter_grows c⟩

/-- non-vacuity -/
example : Generated.Consts.MAX_RECV_EMPTY_DATA_FRAMES ≤ ({ numRecvEmptyDataFrames := 100 } : Counts).numRecvEmptyDataFrames := by decide

/-- **The quotas hold in every reachable state, whatever the peer and the application do.**
    (`Reach`: see `H2V.Props.C05.slots_are_accounted_everywhere`; arbitrary frames, arbitrary API
    calls, arbitrary order.)  As long as no `assert!` has fired:
    * the memory of locally reset streams is bounded: `pending_reset_expired` holds exactly
      `num_local_reset_streams` entries, at most `max_concurrent_reset_streams`;
    * at most `max_pending_accept_reset_streams` streams are waiting for `accept` in a remotely reset state
      (`num_remote_reset_streams`);
    * at most `max_local_error_reset_streams` stream errors have been answered with RST_STREAM;
    * at most `max_concurrent_streams` peer-initiated streams are counted. -/
theorem quotas_hold_everywhere {s : Streams} (h : Reach s) (hp : s.panicked = none) :
    s.recv.pendingResetExpired.length = s.counts.numLocalResetStreams ∧
    s.recv.pendingResetExpired.length ≤ s.counts.maxLocalResetStreams ∧
    s.counts.numRemoteResetStreams ≤ s.counts.maxRemoteResetStreams ∧
    (∀ m, s.counts.maxLocalErrorResetStreams = some m → s.counts.numLocalErrorResetStreams ≤ m) ∧
    s.counts.numRecvStreams ≤ s.counts.maxRecvStreams := by
  have hi := (h.inv.2.2 hp).1
  exact ⟨hi.reset.symm, by rw [← hi.reset]; exact hi.resetLe, hi.remoteLe, hi.errLe, hi.recvLe⟩

/-- non-vacuity -/
example : Reach wS2 ∧ wS2.panicked = none := ⟨wS2_reach, wS2_facts.1⟩

/-- **… end to end through `Inner::recv_data`.**  A DATA frame without END_STREAM that the stream
    itself accepts (`Recv::recv_data` answers `Ok`) but that `Counts::record_data_frame` refuses —
    budget exhausted by small frames, or too many empty frames — turns into the connection error
    `GOAWAY(ENHANCE_YOUR_CALM, "too_many_data_frames")`: the peer is disconnected instead of being
    accommodated. -/
theorem data_flood_disconnects (s : Streams) (id k : Nat) (payload : Bytes) (pad : Option Nat)
    (hk : s.store.findKey? id = some k)
    (hok : (s.recvRecvData k payload false pad).2 = .ok ())
    (hbud : ((s.recvRecvData k payload false pad).1.counts.recordDataFrame payload.length).2 = false) :
    (s.recvData id payload false pad).2 = .error (PErr.libraryGoAwayData ENHANCE_YOUR_CALM "too_many_data_frames") :=
  recvData_flood s id k payload pad hk hok hbud

/-- non-vacuity: an open stream receives one octet while the DATA-frame budget is used up -/
example : let fl : FlowControl := { windowSize := { val := 65535 }, available := { val := 65535 } }
    let s : Streams := { counts := { dataFrameBudget := { available := 0, max := 25600 } }, actions := { recv := { flow := fl } }, store := { slab := [{ key := 0, id := 1, state := { inner := .open .streaming .streaming }, recvFlow := fl }], ids := [(1, 0)], nextKey := 1 } }
    s.store.findKey? 1 = some 0 ∧ H2V.Lemmas.Comp.isOk (s.recvRecvData 0 [7] false none).2 = true ∧
    ((s.recvRecvData 0 [7] false none).1.counts.recordDataFrame 1).2 = false := by decide

/-- **The scheduling queues cannot grow beyond the number of streams — in every reachable state.**
    The intrusive queues `pending_send`, `pending_capacity`, `pending_open`,
    `pending_window_updates` and `pending_reset_expired` never hold a key twice and hold only keys
    of live slab entries, so each of them is at most as long as the slab (and
    `pending_reset_expired` at most `reset_max`: `quotas_hold_everywhere`).  A peer cannot make a
    queue grow by making h2 enqueue the same stream again and again. -/
theorem queues_are_bounded_by_slab {s : Streams} (h : Reach s) (hp : s.panicked = none) (q : QName) (hq : q ≠ .pendingAccept) :
    (s.getQ q).length ≤ s.store.slab.length :=
  (h.qok hp q hq).length_le

/-- non-vacuity -/
example : Reach wS2 ∧ wS2.panicked = none := ⟨wS2_reach, wS2_facts.1⟩

/-- **The quotas and bounds hold in every state of a running connection.**  (`ConnReach`: every
    connection state reachable from a fresh client or server connection by polls of the connection
    future — whatever the peer sent —, user calls and transport events; see
    `H2V.Props.C05.limits_hold_in_every_connection_state`.)  As long as no `assert!` has fired: the
    memory of locally reset streams, the remote-reset quota, the local-error-reset quota and the
    number of counted peer-initiated streams are within their configured limits, and none of the five
    scheduling queues is longer than the slab. -/
theorem bounds_hold_in_every_connection_state {c : Conn} (h : ConnReach c) (hp : c.streams.panicked = none) :
    c.streams.recv.pendingResetExpired.length ≤ c.streams.counts.maxLocalResetStreams ∧
    c.streams.counts.numRemoteResetStreams ≤ c.streams.counts.maxRemoteResetStreams ∧
    (∀ m, c.streams.counts.maxLocalErrorResetStreams = some m → c.streams.counts.numLocalErrorResetStreams ≤ m) ∧
    c.streams.counts.numRecvStreams ≤ c.streams.counts.maxRecvStreams ∧
    (∀ q, q ≠ QName.pendingAccept → (c.streams.getQ q).length ≤ c.streams.store.slab.length) := by
  have hq := quotas_hold_everywhere h.reach hp
  exact ⟨hq.2.1, hq.2.2.1, hq.2.2.2.1, hq.2.2.2.2, fun q hne => queues_are_bounded_by_slab h.reach hp q hne⟩

/-- non-vacuity: a fresh server after its first `poll` -/
example : ConnReach ((Conn.initServer {} false []).protoPoll 50).1 ∧ ((Conn.initServer {} false []).protoPoll 50).1.streams.panicked = none :=
  ⟨.step (.server {} false []) (.protoPoll 50 _), by decide +kernel⟩

#print axioms reset_flood_is_cut_off
#print axioms error_reset_flood_is_cut_off
#print axioms reset_memory_is_bounded
#print axioms tiny_data_flood_is_cut_off
#print axioms empty_data_flood_is_cut_off
#print axioms quotas_hold_everywhere
#print axioms data_flood_disconnects
#print axioms queues_are_bounded_by_slab
#print axioms bounds_hold_in_every_connection_state

end H2V.Props.C18
