import H2V.Lemmas.ConnResetPPeer
import H2V.Lemmas.ConnResetPDrop
import H2V.Lemmas.ConnResetPPeerReset
/-
  C17 — Resets: exactly one RST_STREAM with the right code; peer errors surface intact.
  PROPERTY THEOREMS ONLY (proofs: H2V/Lemmas/ConnResetP*.lean; what is partial and why:
  H2V/Lemmas/ConnResetPNOTES.md).

  Vocabulary (all defined in H2V/Lemmas/ConnResetPRel.lean / ConnResetPHist.lean):
    * `Op`, `run s ops`      — a history: any list of the operations that the connection and the
                               handles perform on the stream layer (`Streams`), arbitrary arguments;
    * `resetCount q`         — number of RST_STREAM frames in a `pending_send` deque;
    * `isErr st`             — `Closed(Error | ErrorAfterEndStream)`: reset / failed, and NOT a scheduled
                               implicit reset;
    * `rank st`              — 0: not reset; 1: an RST_STREAM is owed (queued, or implicit reset scheduled);
                               2: reset, nothing owed (sent, or never owed);
    * `KeysBelow store`      — every slab key in use is below `nextKey` (keys are never handed out twice);
    * `Evolves SRelAny RInv a b` — store `b` is reached from store `a` by steps under which `RInv` is kept
                               and `rank` never decreases (what every operation of the model satisfies).
-/
namespace H2V.Props.C17
open H2V H2V.Model H2V.Model.Conn H2V.Lemmas.ConnResetP

/-- **At most one RST_STREAM is ever queued on a stream, in every reachable state.**
    Start from any state with an empty slab (a fresh connection, either role, any settings) and run ANY
    history of peer frames, connection polls and handle calls (resets, drops, sends … at any moment):
    every slab entry has at most one RST_STREAM in its `pending_send`, and only if its state is
    "closed by an error" (never together with a scheduled implicit reset).  Slab entries are what
    `pop_frame` emits frames from, so this bounds the RST_STREAM frames owed per entry by one. -/
theorem at_most_one_rst_queued (s : Streams) (hs : s.store.slab = []) (ops : List Op) (k : Nat) (st : Stream)
    (h : (run s ops).store.get? k = some st) :
    resetCount st.pendingSend ≤ 1 ∧ (resetCount st.pendingSend = 1 → isErr st.state = true) :=
  let i := run_rinv s ops (allStreams_empty _ s hs) k st h
  ⟨i.le, i.err⟩

/-- non-vacuity: a client queues a request, the user resets it: one RST_STREAM (after the HEADERS) -/
example : ((run {} [.sendRequest false [] false none, .refSendReset 0 8]).store.get? 0).map (·.pendingSend) =
    some [.headers false [], .reset 8] := by decide

/-- **A stream never owes a second RST_STREAM.**  Along every history the `rank` of a slab entry
    (0 not reset → 1 RST_STREAM owed → 2 nothing owed) never decreases: once the RST_STREAM of a stream
    has left its queue (written, or dropped because the peer reset the stream first), no later
    operation — a second `send_reset`, dropping the remaining handles, a stream error on a late frame,
    GOAWAY, EOF — queues or schedules another one for that slab entry. -/
theorem rst_owed_at_most_once (s : Streams) (hs : s.store.slab = []) (ops ops' : List Op) (k : Nat) (st st' : Stream)
    (h : (run s ops).store.get? k = some st) (h' : (run (run s ops) ops').store.get? k = some st') :
    rank st ≤ rank st' :=
  (run_srel (run s ops) ops' (run_keysBelow s ops (keysBelow_empty s hs)) h h').mono
    (run_rinv s ops (allStreams_empty _ s hs) k st h)

/-- non-vacuity: rank 0 (request queued) → 1 (reset by the user) → 1 (reset again: nothing changes) -/
example : ((run {} [.sendRequest false [] false none]).store.get? 0).map rank = some 0 ∧
    ((run {} [.sendRequest false [] false none, .refSendReset 0 8]).store.get? 0).map rank = some 1 ∧
    ((run {} [.sendRequest false [] false none, .refSendReset 0 8, .refSendReset 0 2]).store.get? 0).map (·.pendingSend) =
      some [.headers false [], .reset 8] := by decide

/-- **Resetting a stream that is already reset does nothing** (`Send::send_reset`): no second frame,
    no state change, whatever the code and the initiator. -/
theorem reset_of_reset_stream_is_noop (s : Streams) (k : Nat) (r : Reason) (i : Initiator)
    (h : (s.stream k).state.isReset = true) : s.sendSendReset k r i = s := by
  unfold Streams.sendSendReset; simp [h]

example : ((run {} [.sendRequest false [] false none, .refSendReset 0 8]).stream 0).state.isReset = true := by decide

/-- **A recorded error is never lost.**  Once a stream is closed with an error cause `e` (a reset, a
    GOAWAY, an I/O error — local or remote, any code, any debug data), every later state of every
    history still shows the stream closed with that same cause — or with a *later RST_STREAM of the
    peer* (`Reset(id, code', Remote)`), the only thing that replaces a cause. -/
theorem error_cause_is_kept (s : Streams) (hs : s.store.slab = []) (ops ops' : List Op) (k : Nat) (st st' : Stream) (e : PErr)
    (h : (run s ops).store.get? k = some st) (h' : (run (run s ops) ops').store.get? k = some st')
    (he : st.state.inner = .closed (.error e)) :
    st'.state.inner = .closed (.error e) ∨ ∃ code, st'.state.inner = .closed (.error (.reset st.id code .remote)) :=
  (run_srel (run s ops) ops' (run_keysBelow s ops (keysBelow_empty s hs)) h h').cause.1 e he

/-- non-vacuity: the peer resets stream 1 with an arbitrary 32-bit code; the cause is recorded -/
example : ((run {} [.sendRequest false [] true none, .pollComplete 10 {} {} "c", .recvReset 1 0xdeadbeef]).store.get? 0).map
    (·.state.inner) = some (.closed (.error (.reset 1 0xdeadbeef .remote))) := by decide

/-- **`send_reset(reason)`: exactly one RST_STREAM, with the caller's code, after the HEADERS if those were
    not sent yet; the stream's unsent frames are discarded; no other stream's queue is disturbed.**
    State `s` with all keys below `nextKey` (true in every reachable state, `C08.keys_below_next`), a
    slab entry `st` at `k` that is not reset yet and not (closed with nothing unsent).  After
    `StreamRef::send_reset(reason)`:
    (1) the entry is still in the slab, closed with `Reset(id, reason, User)`, and its `pending_send` is
        exactly `[RST_STREAM(reason)]` — `[HEADERS, RST_STREAM(reason)]` when the stream was still waiting
        for a concurrency slot (`is_pending_open`: its HEADERS had not been sent; everything behind
        them is dropped);
    (2) every other entry present before and after kept key, id, state and `pending_send`;
    (3) every other entry that had something queued is still there, untouched. -/
theorem send_reset_effect (s : Streams) (k : Nat) (reason : Reason) (st : Stream)
    (hkb : KeysBelow s.store) (hg : s.store.get? k = some st) (hr : st.state.isReset = false)
    (hne : (st.state.isClosed && (st.pendingSend.isEmpty && st.bufferedSendData == 0)) = false) :
    (∃ st', (s.refSendReset k reason).store.get? k = some st' ∧ st'.id = st.id ∧
        st'.state = ⟨.closed (.error (.reset st.id reason .user))⟩ ∧
        st'.pendingSend = (if st.isPendingOpen then st.pendingSend.head?.toList else []) ++ [.reset reason]) ∧
    (∀ k' st'', k' ≠ k → k' < s.store.nextKey → (s.refSendReset k reason).store.get? k' = some st'' →
        ∃ st0, s.store.get? k' = some st0 ∧ CoreEq st0 st'') ∧
    (∀ k' st0, k' ≠ k → s.store.get? k' = some st0 → st0.pendingSend ≠ [] →
        ∃ st'', (s.refSendReset k reason).store.get? k' = some st'' ∧ CoreEq st0 st'') :=
  refSendReset_spec s k reason st hkb hg hr hne

/-- non-vacuity, and the two shapes of the queue: a request with a body chunk queued behind the
    concurrency limit (`[HEADERS, RST]`, the DATA is gone) and one whose HEADERS were written (`[RST]`) -/
example :
    ((run {} [.sendRequest false [] false none, .refSendData 0 10 false, .refSendReset 0 8]).store.get? 0).map (·.pendingSend)
      = some [.headers false [], .reset 8] ∧
    ((run {} [.sendRequest false [] false none, .pollComplete 10 {} {} "c", .refSendData 0 10 false,
              .refSendReset 0 0xfffffffe]).store.get? 0).map (·.pendingSend) = some [.reset 0xfffffffe] := by
  decide

/-- **Resetting a stream that had already closed cleanly sends nothing**: closed by END_STREAM both
    ways, nothing unsent — the reason is recorded, no RST_STREAM is queued. -/
theorem reset_after_clean_close_sends_nothing (s : Streams) (k : Nat) (reason : Reason) (st : Stream)
    (hkb : KeysBelow s.store) (hg : s.store.get? k = some st) (hr : st.state.isReset = false)
    (hc : st.state.isClosed = true) (hq : st.pendingSend = []) (hb : st.bufferedSendData = 0) :
    ∀ st', (s.refSendReset k reason).store.get? k = some st' →
      st'.pendingSend = [] ∧ st'.state = ⟨.closed (.error (.reset st.id reason .user))⟩ :=
  refSendReset_closed_clean s k reason st hkb hg hr hc hq hb

/-- **Dropping the last handle of an unfinished stream schedules the implicit reset: CANCEL, or NO_ERROR
    for a server that has completed its response while the request body is still coming.**
    `drop_stream_ref` calls `maybe_cancel`; on an entry without handles that is not closed the state
    becomes `Closed(ScheduledLibraryReset(code))` with that code and the queue is left as it is
    (`pop_frame` then sends the queued response for NO_ERROR / discards the queue otherwise, and the
    RST_STREAM with exactly that code: `rst_frames_come_from_owing_streams`). -/
theorem drop_schedules_cancel_or_no_error (s : Streams) (k : Nat) (st : Stream) (hkb : KeysBelow s.store)
    (hg : s.store.get? k = some st) (hc : st.refCount = 0) (hn : st.state.isClosed = false) :
    ∀ st', (s.maybeCancel k).store.get? k = some st' →
      st'.id = st.id ∧ st'.pendingSend = st.pendingSend ∧
      st'.state = ⟨.closed (.scheduledLibraryReset
        (if s.counts.isServer && st.state.isSendClosed && st.state.isRecvStreaming then NO_ERROR else CANCEL))⟩ :=
  maybeCancel_schedules s k st hkb hg hc hn

/-- non-vacuity (client): request written, both handles dropped: CANCEL (8) scheduled -/
example : ((run {} [.sendRequest false [] false none, .cloneStreamRef 0, .pollComplete 10 {} {} "c",
      .dropStreamRef 0, .dropStreamRef 0]).store.get? 0).map (·.state.inner) =
    some (.closed (.scheduledLibraryReset 8)) := by decide

/-- **Every RST_STREAM `pop_frame` hands to the codec was owed by a slab entry, carries that entry's
    stream id and exactly the owed code, and settles the debt.**  If `pop_frame` returns
    `RST_STREAM(sid, code)`, then at that moment (a state `s1` reached from `s` inside `pop_frame`) some
    entry `k` with stream id `sid` had either `RST_STREAM(code)` at the head of its queue (queued by
    `send_reset` with the caller's code) or an empty queue and `ScheduledLibraryReset(code)`; and in the
    state `pop_frame` returns, entry `k` (if still in the slab) is closed by an error with no RST_STREAM
    queued: its `rank` is 2 — by `rst_owed_at_most_once` it never owes one again. -/
theorem rst_frames_come_from_owing_streams (fuel : Nat) (s : Streams) (maxLen : Nat) (s' : Streams) (sid : Nat) (code : Reason)
    (hkb : KeysBelow s.store) (h : Streams.popFrame fuel s maxLen = (s', some (.reset sid code))) :
    ∃ s1 : Store, Evolves SRelAny RInv s.store s1 ∧ Evolves SRelAny RInv s1 s'.store ∧
      ∃ k st1, s1.get? k = some st1 ∧ st1.id = sid ∧
        ((∃ rest, st1.pendingSend = .reset code :: rest) ∨
          (st1.pendingSend = [] ∧ st1.state.getScheduledReset = some code)) ∧
        (RInv st1 → ∀ st', s'.store.get? k = some st' → rank st' = 2) := by
  obtain ⟨s1, e1, e2, k, st1, h1, h2, h3, h4⟩ := popFrame_emit fuel s maxLen s' _ hkb h
  exact ⟨s1, e1, e2, k, st1, h1, h2, h3, fun i st' h' => done_rank (h4 i st' h').1 (h4 i st' h').2⟩

/-- non-vacuity: the RST_STREAM(8) of a reset request comes out of `pop_frame` -/
example : (match (Streams.popFrame 4 (run {} [.sendRequest false [] false none, .pollComplete 10 {} {} "c",
      .refSendReset 0 8]) 16384).2 with
    | some (.reset 1 8) => true
    | _ => false) = true := by decide

set_option maxRecDepth 100000 in
/-- **Q1 — counterexample to "one RST_STREAM per stream *id*"** (quirk of the real code, reproduced on it,
    see ConnNOTES.md §4): with the reset-expiration queue full or switched off, a stream whose implicit
    CANCEL is only scheduled is forgotten by the id map; a frame of the peer already in flight makes
    `Inner::send_reset` insert a second slab entry with the same id: RST_STREAM(1, CANCEL) and
    RST_STREAM(1, STREAM_CLOSED) are both written.  The theorems above are per slab entry for this reason. -/
theorem q1_two_rst_for_one_stream_id_counterexample :
    (q1State.store.slab.map fun st => (st.key, st.id)) = [(0, 1), (1, 1)] ∧
    (match (Streams.popFrame 10 q1State 16384).2, (Streams.popFrame 10 (Streams.popFrame 10 q1State 16384).1 16384).2 with
     | some (.reset 1 8), some (.reset 1 5) => true
     | _, _ => false) = true :=
  H2V.Lemmas.ConnResetP.q1_two_rst_for_one_stream_id_counterexample

/-- **RST_STREAM from the peer: the exact code, marked remote** (`State::recv_reset`), for every
    32-bit code (`code : Nat` is the wire value): a stream that is not closed becomes
    `Closed(Error(Reset(id, code, Remote)))` — `ErrorAfterEndStream` when the peer had already ended
    its side (then the receive handles see a clean end and only `poll_reset` shows the code). -/
theorem peer_reset_recorded (x : State) (sid : Nat) (code : Reason) (queued : Bool) (h : x.isClosed = false) :
    (x.recvReset sid code queued).inner =
      .closed (if x.isRecvEndStream then .errorAfterEndStream (.reset sid code .remote) else .error (.reset sid code .remote)) :=
  recvReset_state_open x sid code queued h

/-- **RST_STREAM(id, code) from the peer on a live stream** (`Inner::recv_reset`, the whole path:
    `Recv::recv_reset`, `Send::handle_error`, `transition_after`): the frame is accepted; the stream — if
    it is still in the slab, i.e. a handle is alive — is closed with exactly `Reset(id, code, Remote)`
    (`ErrorAfterEndStream(…)` when the peer had already ended its side), for every 32-bit `code`; and its
    `pending_send` is empty: every unsent frame of that stream is discarded.  (What the handles then
    answer: `recv_handles_report_error`, `poll_reset_reports_code`; that it stays so: `error_cause_is_kept`.) -/
theorem peer_reset_on_live_stream (s : Streams) (id : Nat) (code : Reason) (k : Nat) (st : Stream) (hkb : KeysBelow s.store)
    (hid : id ≠ 0) (hmax : ¬ id > s.recv.maxStreamId) (hf : s.store.findKey? id = some k)
    (hg : s.store.get? k = some st) (hpo : st.isPendingOpen = false) (hpa : st.isPendingAccept = false)
    (hn : st.state.isClosed = false) :
    (s.recvReset id code).2 = .ok () ∧
    ∀ st', (s.recvReset id code).1.store.get? k = some st' →
      st'.id = st.id ∧
      st'.state = ⟨.closed (if st.state.isRecvEndStream then .errorAfterEndStream (.reset st.id code .remote)
                            else .error (.reset st.id code .remote))⟩ ∧
      st'.pendingSend = [] :=
  recvReset_records s id code k st hkb hid hmax hf hg hpo hpa hn

/-- non-vacuity: request written, a body chunk queued; the peer resets with a code outside the registry -/
example : let s := run {} [.sendRequest false [] false none, .cloneStreamRef 0, .pollComplete 10 {} {} "c",
                           .refSendData 0 10 false]
    s.store.findKey? 1 = some 0 ∧ ((s.store.get? 0).map fun st => (st.isPendingOpen, st.isPendingAccept, st.state.isClosed,
      st.pendingSend.length)) = some (false, false, false, 1) ∧
    (((s.recvReset 1 0xfffffffe).1.store.get? 0).map fun st => (st.state.inner, st.pendingSend)) =
      some (.closed (.error (.reset 1 0xfffffffe .remote)), []) := by decide

/-- **GOAWAY / I/O error / connection error: recorded as it is** (`State::handle_error`): code,
    initiator and debug data of a GOAWAY, kind of an I/O error. -/
theorem peer_error_recorded (x : State) (e : PErr) (h : x.isClosed = false) :
    (x.handleError e).inner = .closed (if x.isRecvEndStream then .errorAfterEndStream e else .error e) :=
  handleError_state_open x e h

/-- **Every receive handle reports the recorded error, unchanged**: `poll_data`, `poll_trailers`,
    `poll_response`, `poll_informational` on a stream closed with cause `e` whose buffered events have
    been consumed answer `Err(e)` — the same `e` (code, initiator, debug data) for every `e`. -/
theorem recv_handles_report_error (s : Streams) (k : Nat) (e : PErr) (tag : String) (fuel : Nat)
    (hq : (s.stream k).pendingRecv = []) (h : (s.stream k).state.inner = .closed (.error e)) :
    (s.refPollData k tag).2 = .err e ∧ (s.recvPollTrailers k tag).2 = .err e ∧
    (Streams.recvPollResponse (fuel + 1) s k tag).2 = .err e ∧ (s.recvPollInformational k tag).2 = .err e :=
  ⟨refPollData_error s k e tag hq h, recvPollTrailers_error s k e tag hq h,
   recvPollResponse_error s k e tag fuel hq h, recvPollInformational_error s k e tag hq h⟩

example : let s := run {} [.sendRequest false [] true none, .pollComplete 10 {} {} "c", .recvReset 1 0xdeadbeef]
    (s.stream 0).pendingRecv = [] ∧ (s.stream 0).state.inner = .closed (.error (.reset 1 0xdeadbeef .remote)) := by decide

/-- **`poll_reset` reports the recorded code** of a reset (local or remote) or GOAWAY, whether or not
    END_STREAM had been received before, in both modes. -/
theorem poll_reset_reports_code (s : Streams) (k sid : Nat) (code : Reason) (i : Initiator) (m : PollReset) (tag : String)
    (h : (s.stream k).state.inner = .closed (.error (.reset sid code i)) ∨
         (s.stream k).state.inner = .closed (.errorAfterEndStream (.reset sid code i))) :
    (s.pollReset k m tag).2 = .ok (some code) :=
  pollReset_reset s k tag sid code i m h

theorem poll_reset_reports_goaway_code (s : Streams) (k : Nat) (d : Bytes) (code : Reason) (i : Initiator) (m : PollReset)
    (tag : String)
    (h : (s.stream k).state.inner = .closed (.error (.goAway d code i)) ∨
         (s.stream k).state.inner = .closed (.errorAfterEndStream (.goAway d code i))) :
    (s.pollReset k m tag).2 = .ok (some code) :=
  pollReset_goAway s k tag d code i m h

/-- an I/O failure surfaces on `poll_reset` as the error itself -/
theorem poll_reset_reports_io (s : Streams) (k : Nat) (kind : String) (msg : Option String) (m : PollReset) (tag : String)
    (h : (s.stream k).state.inner = .closed (.error (.io kind msg)) ∨
         (s.stream k).state.inner = .closed (.errorAfterEndStream (.io kind msg))) :
    (s.pollReset k m tag).2 = .error (.proto (.io kind msg)) :=
  pollReset_io s k tag kind msg m h

/-- **Sending on a stream that was reset or failed is refused and queues nothing**
    (`UserError::InactiveStreamId`; the code itself is available from `poll_reset`). -/
theorem send_data_on_closed_stream_refused (s : Streams) (k len : Nat) (eos : Bool)
    (hl : len ≤ Generated.Consts.MAX_WINDOW_SIZE) (h : (s.stream k).state.isClosed = true) :
    s.prioSendData k len eos = (s, .error .inactiveStreamId) :=
  prioSendData_closed s k len eos hl h

end H2V.Props.C17

#print axioms H2V.Props.C17.at_most_one_rst_queued
#print axioms H2V.Props.C17.rst_owed_at_most_once
#print axioms H2V.Props.C17.reset_of_reset_stream_is_noop
#print axioms H2V.Props.C17.error_cause_is_kept
#print axioms H2V.Props.C17.send_reset_effect
#print axioms H2V.Props.C17.reset_after_clean_close_sends_nothing
#print axioms H2V.Props.C17.drop_schedules_cancel_or_no_error
#print axioms H2V.Props.C17.rst_frames_come_from_owing_streams
#print axioms H2V.Props.C17.q1_two_rst_for_one_stream_id_counterexample
#print axioms H2V.Props.C17.peer_reset_recorded
#print axioms H2V.Props.C17.peer_reset_on_live_stream
#print axioms H2V.Props.C17.peer_error_recorded
#print axioms H2V.Props.C17.recv_handles_report_error
#print axioms H2V.Props.C17.poll_reset_reports_code
#print axioms H2V.Props.C17.poll_reset_reports_goaway_code
#print axioms H2V.Props.C17.poll_reset_reports_io
#print axioms H2V.Props.C17.send_data_on_closed_stream_refused
