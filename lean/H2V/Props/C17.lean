import H2V.Lemmas.ConnResetPPeer
/-
  C17 — Resets: exactly one RST_STREAM with the right code; peer errors surface intact.
  PROPERTY THEOREMS ONLY (proofs: H2V/Lemmas/ConnResetP*.lean; what is partial and why:
  H2V/Lemmas/ConnResetPNOTES.md).

  Vocabulary (all defined in H2V/Lemmas/ConnResetPRel.lean / ConnResetPHist.lean):
    * `Op`, `run s ops`      — a history: any list of the operations that the connection and the
                               handles perform on the stream layer (`Streams`), arbitrary arguments;
    * `resetCount q`         — number of RST_STREAM frames in a `pending_send` deque;
    * `isErr st`             — `Closed(Error | ErrorAfterEndStream)`: reset / failed, and NOT a scheduled
                               implicit reset;
    * `rank st`              — 0: not reset; 1: an RST_STREAM is owed (queued, or implicit reset scheduled);
                               2: reset, nothing owed (sent, or never owed);
    * `KeysBelow store`      — every slab key in use is below `nextKey` (keys are never handed out twice).
-/
namespace H2V.Props.C17
open H2V H2V.Model H2V.Model.Conn H2V.Lemmas.ConnResetP

/-- **At most one RST_STREAM is ever queued on a stream, in every reachable state.**
    Start from any state with an empty slab (a fresh connection, either role, any settings) and run ANY
    history of peer frames, connection polls and handle calls (resets, drops, sends … at any moment):
    every slab entry has at most one RST_STREAM in its `pending_send`, and only if its state is
    "closed by an error" (never together with a scheduled implicit reset).  Slab entries are what
    `pop_frame` emits frames from, so this bounds the RST_STREAM frames owed per entry by one. -/
theorem at_most_one_rst_queued (s : Streams) (hs : s.store.slab = []) (ops : List Op) (k : Nat) (st : Stream)
    (h : (run s ops).store.get? k = some st) :
    resetCount st.pendingSend ≤ 1 ∧ (resetCount st.pendingSend = 1 → isErr st.state = true) :=
  let i := run_rinv s ops (allStreams_empty _ s hs) k st h
  ⟨i.le, i.err⟩

/-- non-vacuity: a client queues a request, the user resets it: one RST_STREAM (after the HEADERS) -/
example : ((run {} [.sendRequest false [] false none, .refSendReset 0 8]).store.get? 0).map (·.pendingSend) =
    some [.headers false [], .reset 8] := by decide

/-- **A stream never owes a second RST_STREAM.**  Along every history the `rank` of a slab entry
    (0 not reset → 1 RST_STREAM owed → 2 nothing owed) never decreases: once the RST_STREAM of a stream
    has left its queue (written, or dropped because the peer reset the stream first), no later
    operation — a second `send_reset`, dropping the remaining handles, a stream error on a late frame,
    GOAWAY, EOF — queues or schedules another one for that slab entry. -/
theorem rst_owed_at_most_once (s : Streams) (hs : s.store.slab = []) (ops ops' : List Op) (k : Nat) (st st' : Stream)
    (h : (run s ops).store.get? k = some st) (h' : (run (run s ops) ops').store.get? k = some st') :
    rank st ≤ rank st' :=
  (run_srel (run s ops) ops' (run_keysBelow s ops (keysBelow_empty s hs)) h h').mono
    (run_rinv s ops (allStreams_empty _ s hs) k st h)

/-- non-vacuity: rank 0 (request queued) → 1 (reset by the user) → 1 (reset again: nothing changes) -/
example : ((run {} [.sendRequest false [] false none]).store.get? 0).map rank = some 0 ∧
    ((run {} [.sendRequest false [] false none, .refSendReset 0 8]).store.get? 0).map rank = some 1 ∧
    ((run {} [.sendRequest false [] false none, .refSendReset 0 8, .refSendReset 0 2]).store.get? 0).map (·.pendingSend) =
      some [.headers false [], .reset 8] := by decide

/-- **Resetting a stream that is already reset does nothing** (`Send::send_reset`): no second frame,
    no state change, whatever the code and the initiator. -/
theorem reset_of_reset_stream_is_noop (s : Streams) (k : Nat) (r : Reason) (i : Initiator)
    (h : (s.stream k).state.isReset = true) : s.sendSendReset k r i = s := by
  unfold Streams.sendSendReset; simp [h]

example : ((run {} [.sendRequest false [] false none, .refSendReset 0 8]).stream 0).state.isReset = true := by decide

/-- **A recorded error is never lost.**  Once a stream is closed with an error cause `e` (a reset, a
    GOAWAY, an I/O error — local or remote, any code, any debug data), every later state of every
    history still shows the stream closed with that same cause — or with a *later RST_STREAM of the
    peer* (`Reset(id, code', Remote)`), the only thing that replaces a cause. -/
theorem error_cause_is_kept (s : Streams) (hs : s.store.slab = []) (ops ops' : List Op) (k : Nat) (st st' : Stream) (e : PErr)
    (h : (run s ops).store.get? k = some st) (h' : (run (run s ops) ops').store.get? k = some st')
    (he : st.state.inner = .closed (.error e)) :
    st'.state.inner = .closed (.error e) ∨ ∃ code, st'.state.inner = .closed (.error (.reset st.id code .remote)) :=
  (run_srel (run s ops) ops' (run_keysBelow s ops (keysBelow_empty s hs)) h h').cause.1 e he

/-- non-vacuity: the peer resets stream 1 with an arbitrary 32-bit code; the cause is recorded -/
example : ((run {} [.sendRequest false [] true none, .pollComplete 10 {} {} "c", .recvReset 1 0xdeadbeef]).store.get? 0).map
    (·.state.inner) = some (.closed (.error (.reset 1 0xdeadbeef .remote))) := by decide

/-- **RST_STREAM from the peer: the exact code, marked remote** (`State::recv_reset`), for every
    32-bit code (`code : Nat` is the wire value): a stream that is not closed becomes
    `Closed(Error(Reset(id, code, Remote)))` — `ErrorAfterEndStream` when the peer had already ended
    its side (then the receive handles see a clean end and only `poll_reset` shows the code). -/
theorem peer_reset_recorded (x : State) (sid : Nat) (code : Reason) (queued : Bool) (h : x.isClosed = false) :
    (x.recvReset sid code queued).inner =
      .closed (if x.isRecvEndStream then .errorAfterEndStream (.reset sid code .remote) else .error (.reset sid code .remote)) :=
  recvReset_state_open x sid code queued h

/-- **GOAWAY / I/O error / connection error: recorded as it is** (`State::handle_error`): code,
    initiator and debug data of a GOAWAY, kind of an I/O error. -/
theorem peer_error_recorded (x : State) (e : PErr) (h : x.isClosed = false) :
    (x.handleError e).inner = .closed (if x.isRecvEndStream then .errorAfterEndStream e else .error e) :=
  handleError_state_open x e h

/-- **Every receive handle reports the recorded error, unchanged**: `poll_data`, `poll_trailers`,
    `poll_response`, `poll_informational` on a stream closed with cause `e` whose buffered events have
    been consumed answer `Err(e)` — the same `e` (code, initiator, debug data) for every `e`. -/
theorem recv_handles_report_error (s : Streams) (k : Nat) (e : PErr) (tag : String) (fuel : Nat)
    (hq : (s.stream k).pendingRecv = []) (h : (s.stream k).state.inner = .closed (.error e)) :
    (s.refPollData k tag).2 = .err e ∧ (s.recvPollTrailers k tag).2 = .err e ∧
    (Streams.recvPollResponse (fuel + 1) s k tag).2 = .err e ∧ (s.recvPollInformational k tag).2 = .err e :=
  ⟨refPollData_error s k e tag hq h, recvPollTrailers_error s k e tag hq h,
   recvPollResponse_error s k e tag fuel hq h, recvPollInformational_error s k e tag hq h⟩

example : let s := run {} [.sendRequest false [] true none, .pollComplete 10 {} {} "c", .recvReset 1 0xdeadbeef]
    (s.stream 0).pendingRecv = [] ∧ (s.stream 0).state.inner = .closed (.error (.reset 1 0xdeadbeef .remote)) := by decide

/-- **`poll_reset` reports the recorded code** of a reset (local or remote) or GOAWAY, whether or not
    END_STREAM had been received before, in both modes. -/
theorem poll_reset_reports_code (s : Streams) (k sid : Nat) (code : Reason) (i : Initiator) (m : PollReset) (tag : String)
    (h : (s.stream k).state.inner = .closed (.error (.reset sid code i)) ∨
         (s.stream k).state.inner = .closed (.errorAfterEndStream (.reset sid code i))) :
    (s.pollReset k m tag).2 = .ok (some code) :=
  pollReset_reset s k tag sid code i m h

theorem poll_reset_reports_goaway_code (s : Streams) (k : Nat) (d : Bytes) (code : Reason) (i : Initiator) (m : PollReset)
    (tag : String)
    (h : (s.stream k).state.inner = .closed (.error (.goAway d code i)) ∨
         (s.stream k).state.inner = .closed (.errorAfterEndStream (.goAway d code i))) :
    (s.pollReset k m tag).2 = .ok (some code) :=
  pollReset_goAway s k tag d code i m h

/-- an I/O failure surfaces on `poll_reset` as the error itself -/
theorem poll_reset_reports_io (s : Streams) (k : Nat) (kind : String) (msg : Option String) (m : PollReset) (tag : String)
    (h : (s.stream k).state.inner = .closed (.error (.io kind msg)) ∨
         (s.stream k).state.inner = .closed (.errorAfterEndStream (.io kind msg))) :
    (s.pollReset k m tag).2 = .error (.proto (.io kind msg)) :=
  pollReset_io s k tag kind msg m h

/-- **Sending on a stream that was reset or failed is refused and queues nothing**
    (`UserError::InactiveStreamId`; the code itself is available from `poll_reset`). -/
theorem send_data_on_closed_stream_refused (s : Streams) (k len : Nat) (eos : Bool)
    (hl : len ≤ Generated.Consts.MAX_WINDOW_SIZE) (h : (s.stream k).state.isClosed = true) :
    s.prioSendData k len eos = (s, .error .inactiveStreamId) :=
  prioSendData_closed s k len eos hl h

end H2V.Props.C17

#print axioms H2V.Props.C17.at_most_one_rst_queued
#print axioms H2V.Props.C17.rst_owed_at_most_once
#print axioms H2V.Props.C17.reset_of_reset_stream_is_noop
#print axioms H2V.Props.C17.error_cause_is_kept
#print axioms H2V.Props.C17.peer_reset_recorded
#print axioms H2V.Props.C17.peer_error_recorded
#print axioms H2V.Props.C17.recv_handles_report_error
#print axioms H2V.Props.C17.poll_reset_reports_code
#print axioms H2V.Props.C17.poll_reset_reports_goaway_code
#print axioms H2V.Props.C17.poll_reset_reports_io
#print axioms H2V.Props.C17.send_data_on_closed_stream_refused
