import H2V.Lemmas.ConnRecvPPoll
/-
  C03 — Receive windows are conserved: never over-credited, never leaked.
  Property theorems only (lemmas: `H2V/Lemmas/ConnRecvP*.lean`, notes: `ConnRecvPNOTES.md`).

  Full statement of the property (from the catalogue): the window an endpoint advertises never
  exceeds what the application configured (nor 2^31-1); every flow-controlled byte it receives —
  handed to the application and later released, padding, or discarded because the stream was reset,
  refused, unknown, beyond a GOAWAY or its receive handle was dropped — is credited back exactly
  once; once the application has released everything and the peer has exhausted a window, that
  window returns to its configured size; no stream or connection is left permanently short of credit.

  What is proved here, about the model `H2V/Model/Conn*.lean`, for ALL histories:
    * "never over-credited", "conserved", "credited back exactly", "returns to its configured size"
      at CONNECTION level: theorems 1–6, for every state reachable through any sequence of calls of
      the stream layer with any arguments (`Reach`); theorem 10: a stream without handle gives
      everything back exactly once;
    * the same at STREAM level: theorems 7–9, for histories in which `apply_local_settings` and
      `Inner::send_reset` did not fail (`ReachOk`; a failure is a connection error, see the notes).
  The last clause, "no connection is ever left permanently short of credit", was FALSE for the
  pinned code: DATA received on a pushed stream that the application never polls was never
  credited back to the connection window (found here, reproduced on the real code, repaired as F30
  in `drop_stream_ref`, repair mirrored in the model).  With the repair the history that used to
  leak is the positive statement `Lemmas.ConnRecvP.pushed_stream_data_credited_back`, and
  `dropStreamRef_inv` covers the new `release_closed_capacity` calls for every history.  What is
  still only an inequality in the invariant is Σ streams' in-flight ≤ connection's in-flight (an
  equality would say "every in-flight octet belongs to a stream that is still in the store"; it is
  deliberately broken at connection teardown, `clear_all_pending_accept`) — see the notes, §2.

  Vocabulary (defined in the lemma files):
    `Reach g s` / `ReachOk g s`  `s : Streams` is reachable from a new connection by the calls listed in
                 `Lemmas.ConnRecvP.Op` (every function of the stream layer that `ConnProto.lean` and
                 `ConnDriver.lean` call), with any arguments; `g` records what the application
                 configured on the way: `g.target` the connection window configured last,
                 `g.hiTarget` the largest one so far, `g.hiInit` the largest acknowledged
                 SETTINGS_INITIAL_WINDOW_SIZE so far
    `cW s`, `cA s`, `cI s`       the connection's receive `window_size` (what the peer may still send),
                 `available` (window + credit not yet announced) and `in_flight_data` (received, not
                 yet released)
    `sumInfl slab`               Σ over the store of the streams' `in_flight_recv_data`
    `linked s k`                 the id map still points to the slab entry with key `k`
-/
namespace H2V.Props.C03
open H2V H2V.Model H2V.Model.Conn H2V.Lemmas.ConnRecvP H2V.Lemmas.Comp

/-- the state used in the non-vacuity examples: a new client connection on which the application
    raised the connection window to 200 000 (`set_target_window_size`) -/
def exConnOps : List Op := [.setTargetConnectionWindow 200000]
def exConn : Streams := runOps leakStart exConnOps
theorem exConn_reach : Reach (Ghost.init.setTarget 200000) exConn :=
  (reachOk_runOps (.init leakStart_init) exConnOps (by decide +kernel)).reach

/-- … and one on which a request went out on stream 1, a response with 40 000 octets of DATA
    arrived and the application released them -/
def exStreamOps : List Op :=
  [.sendRequest false [] false none, .cloneStreamRef 0, .pollComplete 20 {} {} "c",
   .recvHeaders { sid := 1, eos := false, status := some [50, 48, 48] },
   .recvData 1 (List.replicate 40000 0) false none, .refReleaseCapacity 0 40000]
def exStream : Streams := runOps leakStart exStreamOps
theorem exStream_reach : ReachOk Ghost.init exStream :=
  reachOk_runOps (.init leakStart_init) exStreamOps (by decide +kernel)

/-- **1. Conservation at connection level, every history.**  In every reachable state the octets
    the connection can still announce plus the octets in flight are exactly the configured window:
    `available + in_flight_data = target`.  Every received flow-controlled octet is therefore either
    in flight or back in `available` — whatever happened to it (delivered, padding, discarded, stream
    error).  And the streams never account for more than the connection does:
    `Σ in_flight_recv_data ≤ in_flight_data` (equality is what fails in the finding). -/
theorem connection_window_conserved {g : Ghost} {s : Streams} (h : Reach g s) :
    cA s + (cI s : Int) = (g.target : Int) ∧ sumInfl s.store.slab ≤ cI s := by
  have hi := reach_inv h
  exact ⟨hi.cons, by have := hi.sum; omega⟩

example : Reach (Ghost.init.setTarget 200000) exConn := exConn_reach

/-- **2. Never over-credited at connection level, every history.**  The window the peer sees is
    never negative, and together with what is in flight it never exceeds the largest window the
    application has configured so far, itself at most 2^31-1.  In particular
    `window ≤ hiTarget ≤ 2^31-1`; and as long as the application has not lowered the window
    (`hiTarget = target`) the window never exceeds `available = target − in_flight_data`. -/
theorem connection_window_never_over_credited {g : Ghost} {s : Streams} (h : Reach g s) :
    0 ≤ cW s ∧ cW s + (cI s : Int) ≤ (g.hiTarget : Int) ∧ g.hiTarget ≤ 2147483647 ∧
    (g.hiTarget = g.target → cW s ≤ cA s) := by
  have hi := reach_inv h
  refine ⟨hi.w0, hi.wI, hi.hiMax, fun he => ?_⟩
  have h1 := hi.wI; have h2 := hi.cons
  rw [he] at h1; omega

/-- **3. A connection WINDOW_UPDATE credits exactly what is owed.**  When
    `send_connection_window_update` emits a frame (`unclaimed_capacity()` is `Some(incr)` and the
    codec has room), the increment is exactly `available − window`, the frame is WINDOW_UPDATE(0, incr),
    and afterwards `window = available = target − in_flight_data ≤ target`; `available` and
    `in_flight_data` do not move. -/
theorem connection_window_update_exact {g : Ghost} {s : Streams} (h : Reach g s) (w : Writer) (incr : Nat)
    (hu : s.recv.flow.unclaimedCapacity = some incr) (hcap : w.hasCapacity = true) :
    (incr : Int) = cA s - cW s ∧ 0 < incr ∧
    (s.sendConnectionWindowUpdate w).2.1 = w.bufferSimple 4 s!"W:0:{incr}" ∧
    cW (s.sendConnectionWindowUpdate w).1 = (g.target : Int) - (cI s : Int) ∧
    cA (s.sendConnectionWindowUpdate w).1 = cA s ∧ cI (s.sendConnectionWindowUpdate w).1 = cI s := by
  have hi := reach_inv h
  obtain ⟨h1, h2, h3, h4, h5, h6⟩ := connWindowUpdate_exact hi w incr hu hcap
  exact ⟨h1, h2, h3, by rw [h4]; have := hi.cons; omega, h5, h6⟩

example : exConn.recv.flow.unclaimedCapacity = some 134465 ∧ (({} : Writer).hasCapacity = true) := by decide +kernel

/-- **4. The connection window returns to its configured size.**  Once everything has been released
    (`in_flight_data = 0`) and the peer has used at least half of the window, `available` equals the
    target, a WINDOW_UPDATE of exactly `target − window` is owed, and sending it (theorem 3) makes
    the window equal to the target again. -/
theorem connection_window_restored {g : Ghost} {s : Streams} (h : Reach g s) (h0 : cI s = 0)
    (hhalf : 2 * cW s ≤ (g.target : Int)) (hlt : cW s < (g.target : Int)) (w : Writer) (hcap : w.hasCapacity = true) :
    cA s = (g.target : Int) ∧ s.recv.flow.unclaimedCapacity = some (g.target - (cW s).toNat) ∧
    cW (s.sendConnectionWindowUpdate w).1 = (g.target : Int) := by
  have hi := reach_inv h
  obtain ⟨h1, h2⟩ := connWindow_restored hi h0 hhalf hlt
  have h3 := (connection_window_update_exact h w _ h2 hcap).2.2.2.1
  exact ⟨h1, h2, by rw [h3, h0]; omega⟩

example : cI exConn = 0 ∧ 2 * cW exConn ≤ ((Ghost.init.setTarget 200000).target : Int) ∧
    cW exConn < ((Ghost.init.setTarget 200000).target : Int) := by decide +kernel

/-- **5. Discarded DATA is credited back at once, exactly.**  `ignore_data(sz)` is what
    `Inner::recv_data` and `Recv::recv_data` do with DATA for a stream that was reset locally, is
    unknown ("forgotten") or lies beyond a GOAWAY.  When it answers `Ok`, the connection's
    `available` and `in_flight_data` are exactly what they were before the frame; only the window
    the peer sees is `sz` lower, which the next WINDOW_UPDATE (theorem 3) gives back.
    (For DATA that ends in a stream error, on a stream whose `RecvStream` was dropped, and for
    padding, the same is part of theorem 1: `Inner::recv_data` preserves the invariant whatever the
    stream and the outcome.) -/
theorem discarded_data_credited_back {g : Ghost} {s : Streams} (h : Reach g s) (sz : Nat)
    (hok : (s.ignoreData sz).2 = .ok ()) :
    cW (s.ignoreData sz).1 = cW s - sz ∧ cA (s.ignoreData sz).1 = cA s ∧ cI (s.ignoreData sz).1 = cI s :=
  ignoreData_exact (reach_inv h) sz hok

example : (exConn.ignoreData 1000).2 = .ok () := by decide +kernel

/-- **6. An application release is credited exactly once.**  `release_capacity(cap)` = `Ok` (it is
    refused when `cap` exceeds what the stream has in flight) moves exactly `cap` octets from the
    connection's `in_flight_data` to its `available` and from the stream's `in_flight_recv_data` to the
    stream's `available`; the windows the peer sees do not move (WINDOW_UPDATEs are separate:
    theorems 3 and 8). -/
theorem release_credited_exactly_once {g : Ghost} {s : Streams} (h : Reach g s) (id cap : Nat) (useTask : Bool)
    (hok : (s.releaseCapacity id cap useTask).2 = .ok ()) :
    cap ≤ (s.stream id).inFlightRecvData ∧
    cW (s.releaseCapacity id cap useTask).1 = cW s ∧ cA (s.releaseCapacity id cap useTask).1 = cA s + cap ∧
    cI (s.releaseCapacity id cap useTask).1 = cI s - cap ∧
    ∀ x, s.store.get? id = some x → ∃ x', (s.releaseCapacity id cap useTask).1.store.get? id = some x' ∧
      x'.inFlightRecvData = x.inFlightRecvData - cap ∧ x'.recvFlow = (x.recvFlow.assignCapacity cap).1 :=
  releaseCapacity_exact (reach_inv h) id cap useTask hok

example : ((runOps leakStart (exStreamOps.take 5)).releaseCapacity 0 40000 true).2 = .ok () ∧
    ((runOps leakStart (exStreamOps.take 5)).store.get? 0).isSome = true := by decide +kernel

/-- **7. Conservation and no over-crediting at stream level.**  In every state reachable without the
    two connection errors, for every stream in the store: the stream window the peer sees never
    exceeds the stream's `available`; for a stream the protocol still knows (`linked`) and that is not
    closed, `available + in_flight_recv_data ≤ init_window_sz` (the acknowledged
    SETTINGS_INITIAL_WINDOW_SIZE, however often it went up or down mid-stream) — so the advertised
    stream window is at most `init_window_sz − in_flight_recv_data` — with EQUALITY as long as the
    `RecvStream` handle exists (`is_recv`): every octet received on the stream is in flight or back
    in `available`.  (After `RecvStream` is dropped h2 returns the stream's octets to the connection
    only — the stream's own window is abandoned, which is the documented behaviour F3.) -/
theorem stream_window_conserved {g : Ghost} {s : Streams} (h : ReachOk g s) {x : Stream} (hx : x ∈ s.store.slab) :
    x.recvFlow.windowSize.val ≤ x.recvFlow.available.val ∧
    (linked s x.key → x.state.isClosed = false →
      x.recvFlow.windowSize.val + (x.inFlightRecvData : Int) ≤ (s.recv.initWindowSz : Int) ∧
      x.recvFlow.available.val + (x.inFlightRecvData : Int) ≤ (s.recv.initWindowSz : Int) ∧
      (x.isRecv = true → x.recvFlow.available.val + (x.inFlightRecvData : Int) = (s.recv.initWindowSz : Int))) := by
  have ok := (reachOk_inv h).streams rfl x hx
  refine ⟨ok.wa, fun hl hc => ?_⟩
  rcases ok.bud hl with hcl | hb
  · rw [hc] at hcl; cases hcl
  · exact ⟨by have := ok.wa; have := hb.1; omega, hb.1, hb.2⟩

example : ∃ x ∈ exStream.store.slab, x.key ∈ exStream.store.ids.map (·.2) ∧ x.state.isClosed = false ∧
    x.isRecv = true := by decide +kernel

/-- **8. A stream WINDOW_UPDATE credits exactly what is owed.**  For a stream in the receive-streaming
    state whose `unclaimed_capacity()` is `Some(incr)` (that is when `send_stream_window_updates` emits
    WINDOW_UPDATE(id, incr)): `incr = available − window` exactly, `inc_window(incr)` succeeds and makes
    the window equal to `available` (≤ `init_window_sz − in_flight_recv_data` by theorem 7). -/
theorem stream_window_update_exact {g : Ghost} {s : Streams} (h : ReachOk g s) {x : Stream} (hx : x ∈ s.store.slab)
    (hrs : x.state.isRecvStreaming = true) {incr : Nat} (hu : x.recvFlow.unclaimedCapacity = some incr) :
    (incr : Int) = x.recvFlow.available.val - x.recvFlow.windowSize.val ∧
    x.recvFlow.incWindow incr = ({ x.recvFlow with windowSize := ⟨x.recvFlow.available.val⟩ }, .ok ()) := by
  have hi := reachOk_inv h
  have := (hi.streams rfl x hx).update hrs hu hi.initMax
  exact ⟨this.1, this.2.1⟩

example : ∃ x ∈ exStream.store.slab, x.state.isRecvStreaming = true ∧ x.recvFlow.unclaimedCapacity = some 40000 := by
  decide +kernel

/-- **9. A stream window returns to its configured size.**  For a stream the protocol knows, not
    closed, whose `RecvStream` exists: once the application has released everything
    (`in_flight_recv_data = 0`) `available` equals `init_window_sz`; if moreover the peer has used at
    least half of the window, a WINDOW_UPDATE of exactly `init_window_sz − window` is owed, which
    (theorem 8) makes the window `init_window_sz` again. -/
theorem stream_window_restored {g : Ghost} {s : Streams} (h : ReachOk g s) {x : Stream} (hx : x ∈ s.store.slab)
    (hl : linked s x.key) (hc : x.state.isClosed = false) (hr : x.isRecv = true) (h0 : x.inFlightRecvData = 0)
    (hhalf : 2 * x.recvFlow.windowSize.val ≤ (s.recv.initWindowSz : Int))
    (hlt : x.recvFlow.windowSize.val < (s.recv.initWindowSz : Int)) :
    x.recvFlow.available.val = (s.recv.initWindowSz : Int) ∧
    x.recvFlow.unclaimedCapacity = some ((s.recv.initWindowSz : Int) - x.recvFlow.windowSize.val).toNat :=
  streamWindow_restored (reachOk_inv h) hx hl hc hr h0 hhalf hlt

example : ∃ x ∈ exStream.store.slab, x.key ∈ exStream.store.ids.map (·.2) ∧ x.state.isClosed = false ∧
    x.isRecv = true ∧ x.inFlightRecvData = 0 ∧
    2 * x.recvFlow.windowSize.val ≤ (exStream.recv.initWindowSz : Int) ∧
    x.recvFlow.windowSize.val < (exStream.recv.initWindowSz : Int) := by decide +kernel

/-- **10. A stream whose last handle is gone gives everything back, exactly once.**
    `release_closed_capacity(stream)` is what `drop_stream_ref` calls when no handle of a stream is
    left — on the stream itself and (since the repair F30) on every stream promised on it that the
    application never polled.  Whatever the stream holds, `n = in_flight_recv_data` octets, moves from
    the connection's `in_flight_data` to its `available`, once (`n ≤ in_flight_data`, no wrap); the
    window the peer sees does not move (the next WINDOW_UPDATE, theorem 3, announces it); afterwards
    the stream has nothing in flight and nothing buffered, so nothing can be given back twice. -/
theorem dropped_stream_credited_exactly_once {g : Ghost} {s : Streams} (h : Reach g s) (id : Nat) {x : Stream}
    (hx : s.store.get? id = some x) :
    x.inFlightRecvData ≤ cI s ∧
    cW (s.releaseClosedCapacity id) = cW s ∧
    cA (s.releaseClosedCapacity id) = cA s + x.inFlightRecvData ∧
    cI (s.releaseClosedCapacity id) = cI s - x.inFlightRecvData ∧
    ∃ x', (s.releaseClosedCapacity id).store.get? id = some x' ∧ x'.inFlightRecvData = 0 ∧
      x'.recvFlow = x.recvFlow ∧ x'.pendingRecv = [] :=
  releaseClosedCapacity_exact (reach_inv h) id hx

/-- non-vacuity: the history of F30 before the handles are dropped — the never-polled pushed stream
    (key 1) holds 10 octets; `pushed_stream_data_credited_back` is the whole history: after the two
    `drop_stream_ref` nothing is in flight and `available` is back at 65 535 -/
example : Reach Ghost.init (runOps leakStart (leakOps.take 6)) ∧
    ((runOps leakStart (leakOps.take 6)).store.get? 1).map (·.inFlightRecvData) = some 10 :=
  ⟨(reachOk_runOps (.init leakStart_init) (leakOps.take 6) (by decide +kernel)).reach, by decide +kernel⟩

example : cI (runOps leakStart leakOps) = 0 ∧ cA (runOps leakStart leakOps) = 65535 :=
  ⟨pushed_stream_data_credited_back.2.1, pushed_stream_data_credited_back.2.2.1⟩

/-- **11. Every connection, whatever the peer, the transport and the application do.**  `CReach T H c`:
    the connection `c` (codec, SETTINGS/PING/GOAWAY state machines and stream layer: `Conn` of
    `ConnProto.lean`) is reachable from a new client or server connection — built with legal window
    sizes — through any sequence of `Connection::poll` (any octets from the peer, chopped in any way,
    any write back-pressure), `set_target_window_size` / `set_initial_window_size` (≤ 2^31-1),
    graceful or abrupt shutdown, pings, and calls the handles make on the stream layer; `T` is the
    connection window the application configured last, `H` the largest so far.  Then the connection's
    books balance: `available + in_flight_data = T`, the advertised window is never negative and
    `window + in_flight_data ≤ H ≤ 2^31-1`, and the streams together hold at most what the
    connection counts as in flight.  (This is theorems 1–2 without the hand-made list of stream-layer
    calls: `recv_frame`, `poll2`, `poll`, the SETTINGS ACK path … are proved to make only such calls,
    with valid arguments — in particular `apply_local_settings` only ever gets the values this
    endpoint sent.) -/
theorem every_connection_window_conserved {T H : Nat} {c : Conn} (h : CReach T H c) :
    cA c.streams + (cI c.streams : Int) = (T : Int) ∧ 0 ≤ cW c.streams ∧
    cW c.streams + (cI c.streams : Int) ≤ (H : Int) ∧ H ≤ 2147483647 ∧
    sumInfl c.streams.store.slab ≤ cI c.streams := by
  obtain ⟨g, hi, ht, hh⟩ := creach_inv h
  rw [← ht, ← hh]
  exact ⟨hi.cons, hi.w0, hi.wI, hi.hiMax, by have := hi.sum; omega⟩

/-- non-vacuity: a new client connection, the window raised to 200 000, polled once -/
example : CReach 200000 200000
    ((COp.clientPoll 100).apply ((COp.setTargetWindowSize 200000).apply (Conn.init {}))) :=
  .step (.clientPoll 100)
    (.step (.setTargetWindowSize 200000) (.client {} ⟨fun _ h => (nomatch h), fun _ h => (nomatch h)⟩)
      (show (200000 : Nat) ≤ 2147483647 by decide)) trivial

end H2V.Props.C03

#print axioms H2V.Props.C03.connection_window_conserved
#print axioms H2V.Props.C03.connection_window_never_over_credited
#print axioms H2V.Props.C03.connection_window_update_exact
#print axioms H2V.Props.C03.connection_window_restored
#print axioms H2V.Props.C03.discarded_data_credited_back
#print axioms H2V.Props.C03.release_credited_exactly_once
#print axioms H2V.Props.C03.stream_window_conserved
#print axioms H2V.Props.C03.stream_window_update_exact
#print axioms H2V.Props.C03.stream_window_restored
#print axioms H2V.Props.C03.dropped_stream_credited_exactly_once
#print axioms H2V.Props.C03.every_connection_window_conserved
