import H2V.Lemmas.ConnWakePPush
/-
  C06 — progress: no lost wake-up.  Property theorems only; lemmas and definitions in
  `H2V/Lemmas/ConnWakeP*.lean` (see ConnWakePNOTES.md).

  The liveness statement is turned into safety statements about the waker slots of the model (tags
  instead of `Waker`s; `wake()` appends the tag to `Streams.wakes`):
    (A) WAITING ⇒ REGISTERED: a `poll_*` that answers `Pending` has parked the caller's tag in the slot
        of the stream, and the condition it waits for is false at that moment;
    (B) NO SILENT DROP: no operation other than a `poll_*` empties a slot without writing its tag to
        the wake log, fills a slot, or clears `send_capacity_inc`;
    (C) EVENT ⇒ WAKE: whenever `pending_recv` gets a new entry the receive waker is woken; whenever
        `send_capacity_inc` rises the send and open wakers are woken; (closing a stream through
        `recv_eof`/`handle_error`/`set_reset`/`recv_reset` wakes all four: C07);
    (D) the connection task (`Actions.task`) is woken whenever a handle gives it work.
  `Step none s s'` (ConnWakePBasic.lean) is the conjunction of (B) and (C) for every stream entry plus
  "Closed is absorbing, conn_error is sticky, the connection task is unchanged or taken and woken".
-/
namespace H2V.Props.C06
open H2V H2V.Model H2V.Model.Conn H2V.Lemmas.ConnWakeP H2V.Lemmas.Comp

/-- **(B)+(C) for ALL operations.**  Every operation of the stream layer other than the `poll_*` functions —
    every received frame, settings change, `poll_complete`'s `buffer_pending`, teardown, and every handle
    operation, with ANY arguments in ANY state — is a `Step`. -/
theorem no_waker_dropped_silently (op : Op) (s : Streams) : Step none s (op.apply s) := op.step s

/-- (B) spelled out for one stream: a waker parked in `recv_task` before the operation is still parked
    afterwards or its tag is in the part of the wake log the operation wrote (or the stream entry was
    released: no handle left).  Same for `send_task`, `open_task`, `push_task`. -/
theorem parked_waker_kept_or_woken (op : Op) (s : Streams) (hb : KeysBounded s.store) (k : Nat) (a : Stream)
    (ha : s.store.get? k = some a) :
    (op.apply s).store.get? k = none ∨ ∃ b, (op.apply s).store.get? k = some b ∧
      (∀ t, a.recvTask = some t → b.recvTask = some t ∨ t ∈ newWakes s (op.apply s)) ∧
      (∀ t, a.sendTask = some t → b.sendTask = some t ∨ t ∈ newWakes s (op.apply s)) ∧
      (∀ t, a.openTask = some t → b.openTask = some t ∨ t ∈ newWakes s (op.apply s)) ∧
      (∀ t, a.pushTask = some t → b.pushTask = some t ∨ t ∈ newWakes s (op.apply s)) := by
  have key : ∀ {w : List String} {x y : Option String}, SlotStep w x y → ∀ t, x = some t → y = some t ∨ t ∈ w := by
    intro w x y h t ht
    rcases h with e | ⟨_, e⟩
    · exact Or.inl (e ▸ ht)
    · exact Or.inr (e t ht)
  rcases (op.step s).keep k a (hb.get? ha) ha with h | ⟨b, hb', hab⟩
  · exact Or.inl h
  · exact Or.inr ⟨b, hb', key hab.recvTask, key hab.sendTask, key hab.openTask, key hab.pushTask⟩

example : KeysBounded exOpen.store ∧ exOpen.store.get? 0 ≠ none := ⟨exOpen_good.bounded, by decide⟩

/-- (C) spelled out, receive side: if an operation leaves a stream with a receive queue that is not a
    suffix of the old one (something was pushed: response head, DATA, trailers, a promised request), the
    waker parked in `recv_task` was woken and the slot is empty. -/
theorem new_recv_event_wakes_reader (op : Op) (s : Streams) (hb : KeysBounded s.store) (k : Nat) (a b : Stream)
    (ha : s.store.get? k = some a) (hb' : (op.apply s).store.get? k = some b)
    (hnew : ¬ ∃ n, b.pendingRecv = a.pendingRecv.drop n) :
    b.recvTask = none ∧ ∀ t, a.recvTask = some t → t ∈ newWakes s (op.apply s) := by
  rcases (op.step s).keep k a (hb.get? ha) ha with h | ⟨b0, hb0, hab⟩
  · rw [h] at hb'; cases hb'
  · rw [hb0] at hb'; cases hb'
    rcases hab.recvPush with h | h
    · exact absurd h hnew
    · exact h

/-- non-vacuity: a response head arriving on the parked stream of `exOpen` grows the queue and wakes `p0` -/
example : (exOpen.stream 0).pendingRecv.length = 0 ∧
    (((Op.recvHeaders { sid := 1, eos := false, status := some [50, 48, 48] }).apply exOpen).stream 0).pendingRecv.length = 1 ∧
    ((Op.recvHeaders { sid := 1, eos := false, status := some [50, 48, 48] }).apply exOpen).wakes = ["p0"] := by decide

/-- (C) spelled out, send side: if `send_capacity_inc` of a stream is raised by an operation (capacity was
    assigned: WINDOW_UPDATE, SETTINGS, capacity given back by another stream, DATA written), the wakers in
    `send_task` (`poll_capacity`) and `open_task` were woken; and no operation ever clears the flag
    (only `poll_capacity` does): a task that saw `Pending` cannot miss the increase. -/
theorem capacity_increase_wakes_sender (op : Op) (s : Streams) (hb : KeysBounded s.store) (k : Nat) (a b : Stream)
    (ha : s.store.get? k = some a) (hb' : (op.apply s).store.get? k = some b) :
    (a.sendCapacityInc = true → b.sendCapacityInc = true) ∧
    (a.sendCapacityInc = false → b.sendCapacityInc = true →
      b.sendTask = none ∧ b.openTask = none ∧
      ∀ t, (a.sendTask = some t ∨ a.openTask = some t) → t ∈ newWakes s (op.apply s)) := by
  rcases (op.step s).keep k a (hb.get? ha) ha with h | ⟨b0, hb0, hab⟩
  · rw [h] at hb'; cases hb'
  · rw [hb0] at hb'; cases hb'
    refine ⟨hab.capKeep, fun h1 h2 => ?_⟩
    rcases hab.capRise with h | h
    · rw [h1, h2] at h; cases h
    · exact h

/-- non-vacuity: `reserve_capacity(65535)` on an open stream assigns capacity and raises its flag -/
example : (Op.refReserveCapacity 0 65535).apply R1.r3 = R1.r4 ∧ (R1.r3.stream 0).sendCapacityInc = false ∧
    (R1.r4.stream 0).sendCapacityInc = true := ⟨rfl, by decide, by decide⟩

/-- **(A) `poll_capacity`**: `Pending` ⇒ the caller is parked in `send_task`, the stream is send-streaming,
    no capacity was assigned since the last poll or the capacity is zero, and the flag is clear (so
    the next increase wakes). -/
theorem poll_capacity_pending_is_registered (s s' : Streams) (k : Nat) (tag : String) (a : Stream)
    (ha : s.store.get? k = some a) (h : s.pollCapacity k tag = (s', .pending)) :
    (s'.stream k).sendTask = some tag ∧ a.state.isSendStreaming = true ∧
    (a.sendCapacityInc = false ∨ a.capacity s.prio.maxBufferSize = 0) ∧
    (s'.stream k).sendCapacityInc = false ∧ s'.wakes = s.wakes :=
  pollCapacity_pending ha h

example : (match (exOpen.pollCapacity 0 "s0").2 with | .pending => true | _ => false) = true := by decide

/-- **(A) `poll_reset`**: `Pending` ⇒ parked in `send_task`, and the stream has no reset reason yet. -/
theorem poll_reset_pending_is_registered (s s' : Streams) (k : Nat) (mode : PollReset) (tag : String) (a : Stream)
    (ha : s.store.get? k = some a) (h : s.pollReset k mode tag = (s', .ok none)) :
    (s'.stream k).sendTask = some tag ∧ a.state.ensureReason mode = .ok none ∧ s'.wakes = s.wakes :=
  pollReset_pending ha h

example : (W1.w3.pollReset 0 .streaming "s0").2 = .ok none := W1.parked.1

/-- **(A) `poll_data` / `poll_trailers` / `poll_response`**: `Pending` ⇒ parked in `recv_task`; the queue is
    empty and the receive side still open (for `poll_trailers`: or unread DATA is in front). -/
theorem recv_polls_pending_are_registered (s s' : Streams) (k : Nat) (tag : String) (a : Stream)
    (ha : s.store.get? k = some a) :
    (s.refPollData k tag = (s', .pending) →
      (s'.stream k).recvTask = some tag ∧ a.pendingRecv = [] ∧ a.state.ensureRecvOpen = .ok true ∧ s'.wakes = s.wakes) ∧
    (s.recvPollTrailers k tag = (s', .pending) →
      (s'.stream k).recvTask = some tag ∧ s'.wakes = s.wakes ∧
      ((a.pendingRecv = [] ∧ a.state.ensureRecvOpen = .ok true) ∨
       ∃ e rest, a.pendingRecv = e :: rest ∧ ∀ f, e ≠ .trailers f)) ∧
    (Streams.recvPollResponse (a.pendingRecv.length + 1) s k tag = (s', .pending) →
      (s'.stream k).recvTask = some tag ∧ (s'.stream k).state.ensureRecvOpen = .ok true ∧
      (s'.stream k).pendingRecv = [] ∧ s'.wakes = s.wakes) :=
  ⟨refPollData_pending ha, recvPollTrailers_pending ha, recvPollResponse_pending _ ha (Nat.lt_succ_self _)⟩

example : (match (exOpen.refPollData 0 "b0").2 with | .pending => true | _ => false) = true ∧
    (match (Streams.recvPollResponse 1 exOpen 0 "p0").2 with | .pending => true | _ => false) = true := by decide

/-- **(A) `SendRequest::poll_ready`**: `Pending` ⇒ its pending stream still waits in `pending_open`, no
    connection error, and the caller is parked in that stream's `open_task` (the slot of its own since
    fix F10), which `notify_send` wakes when `pop_pending_open` opens the stream. -/
theorem poll_ready_pending_is_registered (s s' : Streams) (p : Option Nat) (tag : String)
    (h : s.pollPendingOpen p tag = (s', .ok false)) :
    ∃ k, p = some k ∧ (s.stream k).isPendingOpen = true ∧ s.actions.connError = none ∧
      (∀ a, s.store.get? k = some a → (s'.stream k).openTask = some tag) ∧ s'.wakes = s.wakes :=
  pollPendingOpen_pending h

/-- non-vacuity: right after `send_request` the stream waits in `pending_open` -/
example : (W1.w1.pollPendingOpen (some 0) "q").2 = .ok false := by decide

/-- **(D) the connection task is woken when a handle gives it work** — `TaskWoken s s'`: the slot
    `Actions.task` is empty in `s'` and the tag parked in `s` is in the wake log written in between.
    `queue_frame` / `schedule_send` on a stream that may send (not waiting in `pending_open`, not an
    unannounced pushed stream): -/
theorem queued_frame_wakes_connection (s : Streams) (k : Nat) (f : SFrame) (h : (s.stream k).isSendReady = true) :
    TaskWoken s (s.queueFrame k f) ∧ TaskWoken s (s.scheduleSend k) :=
  ⟨queueFrame_woken f h, scheduleSend_woken h⟩

example : (exOpen.stream 0).isSendReady = true := by decide

/-- (D) a successful `send_request` (the new stream goes to `pending_open` — explicit wake — or is
    scheduled), for every request in every state with bounded keys (every reachable state) -/
theorem send_request_wakes_connection (s s' : Streams) (isHead : Bool) (f : List Hpack.Field) (eos : Bool)
    (p : Option Nat) (r : Nat × Bool) (hb : KeysBounded s.store) (h : s.sendRequest isHead f eos p = (s', .ok r)) :
    TaskWoken s s' :=
  sendRequest_woken hb h

example : KeysBounded W1.w0.store ∧ (W1.w0.sendRequest false [] true none).2 = .ok (0, false) := by
  refine ⟨fun a ha => ?_, W1.request_ok⟩
  have : W1.w0.store.slab = [] := by decide
  rw [this] at ha; cases ha

/-- (D) response head / trailers queued on a stream that may send -/
theorem send_headers_and_trailers_wake_connection (s : Streams) (k : Nat) (eos : Bool) (f : List Hpack.Field)
    (hr : (s.stream k).isSendReady = true) :
    ((s.sendHeaders k eos f).2 = .ok () → TaskWoken s (s.sendHeaders k eos f).1) ∧
    ((s.sendTrailers k f).2 = .ok () → TaskWoken s (s.sendTrailers k f).1) :=
  ⟨fun h => sendHeaders_woken h hr, fun h => sendTrailers_woken h hr⟩

example : (exOpen.sendTrailers 0 []).2 = .ok () := by decide

/-- (D) `send_reset` from a handle that has something to tell the peer (the stream was not reset before
    and is not both closed and flushed) -/
theorem send_reset_wakes_connection (s : Streams) (k : Nat) (r : Reason)
    (h1 : (s.stream k).state.isReset = false)
    (h2 : ((s.stream k).state.isClosed && ((s.stream k).pendingSend.isEmpty && (s.stream k).bufferedSendData == 0)) = false)
    (h3 : (s.stream k).isSendReady = true) : TaskWoken s (s.refSendReset k r) :=
  refSendReset_woken r h1 h2 h3

example : (exOpen.stream 0).state.isReset = false ∧ (exOpen.stream 0).isSendReady = true ∧
    ((exOpen.stream 0).state.isClosed && ((exOpen.stream 0).pendingSend.isEmpty && (exOpen.stream 0).bufferedSendData == 0)) = false := by
  decide

/-- (D) `send_data` from a handle (ok) on a stream that may send: the connection task is woken — or the
    stream has buffered DATA and not one octet of send capacity (`NoCapacity`): nothing is sendable, and
    `try_assign_capacity` schedules the stream when capacity arrives -/
theorem send_data_wakes_connection_or_has_no_capacity (s : Streams) (k len : Nat) (eos : Bool)
    (hok : (s.refSendData k len eos).2 = .ok ()) (hr : (s.stream k).isSendReady = true) :
    TaskWoken s (s.refSendData k len eos).1 ∨ NoCapacity (s.refSendData k len eos).1 k :=
  refSendData_woken hok hr

example : (exOpen.refSendData 0 10 false).2 = .ok () ∧ (exOpen.stream 0).isSendReady = true := by decide

/-- (D) the LAST handle of a stream that is not closed is dropped (the application lost interest
    mid-flight): the implicit reset is scheduled and the connection task is woken -/
theorem drop_last_handle_wakes_connection (s : Streams) (k : Nat) (h1 : (s.stream k).refCount = 1)
    (hc : (s.stream k).state.isClosed = false) (hr : (s.stream k).isSendReady = true) :
    TaskWoken s (s.dropStreamRef k) :=
  dropStreamRef_woken h1 hc hr

example : ((exOpen.dropStreamRef 0).stream 0).refCount = 1 ∧ ((exOpen.dropStreamRef 0).stream 0).state.isClosed = false ∧
    ((exOpen.dropStreamRef 0).stream 0).isSendReady = true := by decide

/-- (D) `reserve_capacity` that gives capacity back (it is handed to the streams waiting for it, which
    are scheduled).  BEFORE fix 6a8a003 (finding F27, found with this model and reproduced on the real
    code) nobody woke the connection task here: buffered DATA of another stream was sendable and stayed
    queued until something else happened. -/
theorem reserve_capacity_release_wakes_connection (s : Streams) (k c : Nat)
    (h : ((s.reserveCapacity k c).stream k).requestedSendCapacity < (s.stream k).requestedSendCapacity) :
    TaskWoken s (s.refReserveCapacity k c) :=
  refReserveCapacity_woken h

/-- … on the witness of F27: stream 1 is scheduled AND the parked connection task `c` is woken -/
theorem reserve_capacity_release_wakes_connection_example :
    R1.r6.prio.pendingSend = [] ∧ R1.r6.actions.task = some "c" ∧
    R1.r7.prio.pendingSend = [1] ∧ R1.r7.wakes = ["c"] ∧ R1.r7.actions.task = none :=
  R1.reserve_capacity_wakes_connection_example

/-- (D) `release_capacity` that makes a WINDOW_UPDATE due — for the connection, or for the stream (which
    is then queued in `pending_window_updates`); `set_target_window_size`; the last handle dropped -/
theorem release_capacity_wakes_connection (s : Streams) (k c : Nat) :
    ((s.modRecv fun r => { r with inFlightData := wrapSubU32 r.inFlightData c, flow := (r.flow.assignCapacity c).1 }).recv.flow.unclaimedCapacity.isSome = true →
      TaskWoken s (s.releaseConnectionCapacity c true)) ∧
    (¬ c > (s.stream k).inFlightRecvData →
      (((s.releaseConnectionCapacity c true).modStream k fun st => { st with inFlightRecvData := wrapSubU32 st.inFlightRecvData c, recvFlow := (st.recvFlow.assignCapacity c).1 }).stream k).recvFlow.unclaimedCapacity.isSome = true →
      TaskWoken s (s.refReleaseCapacity k c).1) ∧
    (s.refs = 2 → TaskWoken s s.dropHandle) :=
  ⟨releaseConnectionCapacity_woken, refReleaseCapacity_woken, dropHandle_woken⟩

example : (Conn.init {}).streams.refs = 2 := by decide

/-- **(D) the connection task is parked whenever `Connection::poll` answers `Pending`.**  For every
    connection state, fuel and input: the polling task `c'.cx` is registered in `Actions.task` — the slot
    every handle operation above wakes — or, when the codec cannot take more, on the transport's write
    waker.  `Streams::poll_complete` itself answers `Ready` only after registering under the lock, after
    `buffer_pending` found nothing more to write (no window between "nothing to do" and "parked").
    `hp`: the model flagged no panic (no firing site is reachable); `hcap`: the write buffer's capacity is
    at least `chain_threshold + 9` (true from `Conn.init` on: the capacity only grows). -/
theorem connection_poll_pending_is_parked (n : Nat) (c c' : Conn)
    (hp : c'.streams.panicked = none) (hcap : c'.codec.w.cap ≥ c'.codec.w.minBufferCapacity) :
    (Conn.protoPoll n c = (c', .pending) →
      c'.streams.actions.task = some c'.cx ∨ c'.codec.io.writeWaker = some c'.cx) ∧
    (Conn.clientPoll n c = (c', .pending) →
      c'.streams.actions.task = some c'.cx ∨ c'.codec.io.writeWaker = some c'.cx) :=
  ⟨fun h => protoPoll_pending_parks n c c' h hp hcap, fun h => clientPoll_pending_parks n c c' h hp hcap⟩

theorem poll_complete_ready_is_parked (n : Nat) (s s' : Streams) (w w' : Writer) (io io' : Tio) (tag : String)
    (h : Streams.pollComplete n s w io tag = (s', w', io', .ready)) : s'.actions.task = some tag :=
  pollComplete_ready_parks n s s' w w' io io' tag h

/-- non-vacuity: the first poll of a fresh client connection (SETTINGS flushed, nothing to read) is
    `Pending` and has parked `c` in `Actions.task` -/
example : (match (Conn.clientPoll 10 (Conn.init {})).2 with | .pending => true | _ => false) = true ∧
    (Conn.clientPoll 10 (Conn.init {})).1.streams.actions.task = some "c" ∧
    (Conn.clientPoll 10 (Conn.init {})).1.streams.panicked = none := by decide

/-- **User PING**: `send_ping` wakes the connection task parked in `ping_task` (registered by
    `send_pending_ping` before it looks at the state: fix F7); the PONG wakes the waiter in `pong_task`;
    `poll_pong` answers `Pending` only after parking there with no pong received. -/
theorem user_ping_wakes (c : Conn) (u : UserPings) (hu : c.pingPong.userPings = some u) :
    (u.state = Generated.Consts.USER_STATE_EMPTY →
      (c.userSendPing).2 = none ∧ ∀ t, u.pingTask = some t → t ∈ newWakes c.streams c.userSendPing.1.streams) ∧
    (u.state = Generated.Consts.USER_STATE_PENDING_PONG → c.pingPong.pendingPing = none →
      (c.pingPong.recvPing true Generated.Consts.PING_USER_PAYLOAD).2.2.1 = u.pongTask.toList) ∧
    (∀ c' tag, c.userPollPong tag = (c', none) →
      ∃ u', c'.pingPong.userPings = some u' ∧ u'.pongTask = some tag ∧
        u'.state ≠ Generated.Consts.USER_STATE_RECEIVED_PONG ∧ u'.state ≠ Generated.Consts.USER_STATE_CLOSED) := by
  refine ⟨fun hs => userSendPing_wakes c u hu hs, fun hs hp => recvPing_wakes_pong c.pingPong u hu hs hp,
    fun c' tag h => ?_⟩
  rcases userPollPong_pending c c' tag h with hn | h
  · rw [hu] at hn; cases hn
  · exact h

example : ((Conn.init {}).takeUserPings.1).pingPong.userPings = some {} := by decide

/-- **F32 (positive), the step the repair added**: when the receive side of a stream has ended,
    `notify_push_if_recv_ended` (called by `recv_headers` and `recv_data` right after `notify_recv`) leaves
    `push_task` empty and the tag that was parked there (`PushPromises::poll_push_promise`) is in the wake log. -/
theorem end_stream_step_wakes_push_waiter (s : Streams) (k : Nat) (a : Stream) (ha : s.store.get? k = some a)
    (he : a.state.isRecvEndStream = true) :
    ((s.notifyPushIfRecvEnded k).stream k).pushTask = none ∧
    ∀ t, a.pushTask = some t → t ∈ newWakes s (s.notifyPushIfRecvEnded k) :=
  notifyPushIfRecvEnded_post ha he

example : (W3.h5.stream 0).state.isRecvEndStream = true := by decide

/-- F32 (positive), trailers: `recv_trailers` (always END_STREAM) that is accepted leaves `push_task` empty and
    has woken the tag parked there — for every state with bounded keys (every reachable state), any trailers. -/
theorem trailers_wake_push_waiter (s : Streams) (k : Nat) (h : HeadersIn) (a : Stream) (hb : KeysBounded s.store)
    (ha : s.store.get? k = some a) (hok : (s.recvRecvTrailers k h).2 = .ok ()) :
    ((s.recvRecvTrailers k h).1.stream k).pushTask = none ∧
    ∀ t, a.pushTask = some t → t ∈ newWakes s (s.recvRecvTrailers k h).1 :=
  recvRecvTrailers_wakes_push hb ha hok

example : (W3.p4.recvRecvTrailers 0 { sid := 1, eos := true, status := none }).2 = .ok () ∧
    (W3.p4.stream 0).pushTask = some "q0" := by decide

/-- F32 (positive), END_STREAM on DATA and on the response head — on the witnesses (client, default builder,
    reached from `Conn.init {}` through the model API): `q0` parked in `poll_pushed` is woken, the slot is
    empty, and a new poll answers "no more".  (General theorems: `end_stream_step_wakes_push_waiter` for the
    step, `data_end_stream_wakes_push_waiter` for `recv_data` as a whole, `trailers_wake_push_waiter`.) -/
theorem end_stream_wakes_push_waiter_examples :
    ((W3.p4.stream 0).pushTask = some "q0" ∧ (W3.p5.stream 0).state.isRecvEndStream = true ∧ "q0" ∈ W3.p5.wakes ∧
      (W3.p5.stream 0).pushTask = none) ∧
    ((W3.h4.stream 0).pushTask = some "q0" ∧ "q0" ∈ W3.h5.wakes ∧ (W3.h5.stream 0).pushTask = none) :=
  ⟨⟨W3.data_end_stream_wakes_push_example.2.1, W3.data_end_stream_wakes_push_example.2.2.1,
    W3.data_end_stream_wakes_push_example.2.2.2.1, W3.data_end_stream_wakes_push_example.2.2.2.2.1⟩,
   W3.headers_end_stream_wakes_push_example⟩

/-- **F32 (positive), DATA with END_STREAM — `recv_data` as a whole.**  Whenever `recv_data(.., END_STREAM)` answers
    `Ok` (no panic flag) on a stream whose receive side had not ended and has ended in the result, `push_task` is
    empty and the tag that was parked there (`poll_pushed`) is in the part of the wake log the call wrote — on
    EVERY `Ok` path, including the early return for a dropped `RecvStream` (`!stream.is_recv`).  That path was
    FINDING W3, found with this model as a counterexample to this very statement and repaired by 334158d. -/
theorem data_end_stream_wakes_push_waiter (s : Streams) (k : Nat) (p : Bytes) (pad : Option Nat) (a : Stream)
    (hb : KeysBounded s.store) (ha : s.store.get? k = some a) (hne : a.state.isRecvEndStream = false)
    (hok : (s.recvRecvData k p true pad).2 = .ok ()) (hp : (s.recvRecvData k p true pad).1.panicked = none)
    (he : ((s.recvRecvData k p true pad).1.stream k).state.isRecvEndStream = true) :
    ((s.recvRecvData k p true pad).1.stream k).pushTask = none ∧
    ∀ t, a.pushTask = some t → t ∈ newWakes s (s.recvRecvData k p true pad).1 :=
  recvRecvData_eos_wakes_push hb ha hne hok hp he

/-- non-vacuity, on the old W3 witness: body handle dropped, `q0` parked in `poll_pushed`, DATA+END_STREAM: woken -/
theorem data_end_stream_after_dropped_body_wakes_push_example :
    (W3.d5.stream 0).pushTask = some "q0" ∧ (W3.d5.stream 0).isRecv = false ∧
    (W3.d5.recvData 1 [1, 2, 3] true none).2 = .ok () ∧
    (W3.d6.stream 0).state.isRecvEndStream = true ∧ "q0" ∈ W3.d6.wakes ∧ (W3.d6.stream 0).pushTask = none :=
  W3.dropped_body_end_stream_wakes_push_example

example : (W3.d5.stream 0).state.isRecvEndStream = false ∧ (W3.d5.recvRecvData 0 [1, 2, 3] true none).2 = .ok () ∧
    (W3.d5.recvRecvData 0 [1, 2, 3] true none).1.panicked = none ∧
    ((W3.d5.recvRecvData 0 [1, 2, 3] true none).1.stream 0).state.isRecvEndStream = true := by decide

/-- **(A) `poll_pushed`**: `Pending` ⇒ the caller is parked in `push_task`, no promised stream is queued and the
    receive side is still open; once the receive side has ended (or the stream is closed) it never waits. -/
theorem poll_pushed_pending_is_registered (s s' : Streams) (k : Nat) (tag : String) (a : Stream)
    (ha : s.store.get? k = some a) :
    (s.refPollPushed k tag = (s', .pending) →
      (s'.stream k).pushTask = some tag ∧ a.pendingPushPromises = [] ∧ a.state.ensureRecvOpen = .ok true ∧
      s'.wakes = s.wakes) ∧
    ((a.state.isRecvEndStream = true ∨ a.state.isClosed = true) → ∀ s'', s.recvPollPushed k tag ≠ (s'', .pending)) :=
  ⟨refPollPushed_pending ha, fun h => recvPollPushed_ended (by rw [stream_eq_of_get? ha]; exact h)⟩

example : (match (W3.p3.refPollPushed 0 "q0").2 with | .pending => true | _ => false) = true :=
  W3.data_end_stream_wakes_push_example.1

/-- **F35 (positive).**  `drop_stream_ref` of the last reference besides the connection's own (`refs = 2` before the
    call: a `SendRequest` drops its `Streams` handle BEFORE its `pending` stream reference, so that reference can
    be the last one) wakes the parked connection task — for every stream, in every state: the idle client gets
    polled, sees that nobody is left and closes itself.  Before the repair nothing woke it. -/
theorem drop_last_reference_wakes_connection (s : Streams) (k : Nat) (hrefs : s.refs = 2) :
    TaskWoken s (s.dropStreamRef k) :=
  dropStreamRef_last_ref_woken hrefs

/-- … on the witness: `SendRequest` with a pending stream dropped while the connection task `c` is parked -/
theorem drop_last_reference_wakes_connection_example :
    F35.f2.refs = 2 ∧ F35.f2.actions.task = some "c" ∧ F35.f3.refs = 1 ∧ "c" ∈ F35.f3.wakes ∧
    F35.f3.actions.task = none :=
  F35.last_stream_ref_wakes_connection_example

end H2V.Props.C06

#print axioms H2V.Props.C06.no_waker_dropped_silently
#print axioms H2V.Props.C06.parked_waker_kept_or_woken
#print axioms H2V.Props.C06.new_recv_event_wakes_reader
#print axioms H2V.Props.C06.capacity_increase_wakes_sender
#print axioms H2V.Props.C06.poll_capacity_pending_is_registered
#print axioms H2V.Props.C06.poll_reset_pending_is_registered
#print axioms H2V.Props.C06.recv_polls_pending_are_registered
#print axioms H2V.Props.C06.poll_ready_pending_is_registered
#print axioms H2V.Props.C06.queued_frame_wakes_connection
#print axioms H2V.Props.C06.send_request_wakes_connection
#print axioms H2V.Props.C06.send_headers_and_trailers_wake_connection
#print axioms H2V.Props.C06.send_reset_wakes_connection
#print axioms H2V.Props.C06.send_data_wakes_connection_or_has_no_capacity
#print axioms H2V.Props.C06.drop_last_handle_wakes_connection
#print axioms H2V.Props.C06.reserve_capacity_release_wakes_connection
#print axioms H2V.Props.C06.reserve_capacity_release_wakes_connection_example
#print axioms H2V.Props.C06.release_capacity_wakes_connection
#print axioms H2V.Props.C06.connection_poll_pending_is_parked
#print axioms H2V.Props.C06.poll_complete_ready_is_parked
#print axioms H2V.Props.C06.user_ping_wakes
#print axioms H2V.Props.C06.end_stream_step_wakes_push_waiter
#print axioms H2V.Props.C06.trailers_wake_push_waiter
#print axioms H2V.Props.C06.end_stream_wakes_push_waiter_examples
#print axioms H2V.Props.C06.data_end_stream_wakes_push_waiter
#print axioms H2V.Props.C06.data_end_stream_after_dropped_body_wakes_push_example
#print axioms H2V.Props.C06.poll_pushed_pending_is_registered
#print axioms H2V.Props.C06.drop_last_reference_wakes_connection
#print axioms H2V.Props.C06.drop_last_reference_wakes_connection_example
