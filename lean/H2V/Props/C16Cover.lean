import H2V.Lemmas.ConnPartPLedger
/-
  C16 (cover) — "capacity a stream does not use returns to the connection": the send ledger
      Σ stream.available + conn.available = conn.window
  and the restriction of `C16.capacity_lost_only_by_release_partial` ("`transition_after` keeps the total,
  EXCEPT when it releases a closed, unreferenced stream that still holds capacity").
  Property theorems only; lemmas: `H2V/Lemmas/ConnPartPLedger.lean`, notes: `H2V/Lemmas/ConnPartPNOTES.md`.

  Result.  (1) The full statement — the ledger is exact in every state of ConnFlowP's `Reach` — is FALSE:
  `ledger_exact_counterexample`.  `Reach` is the stream-layer API with ARBITRARY `Writer` arguments for
  `poll_complete`; the witness calls it with three unrelated writers, which a connection (one codec) cannot do.
  It is NOT a defect of h2; it shows that the exception cannot be removed at this level of abstraction: the
  remainder of a DATA frame has to come back from the writer that took the chunk.
  (2) What a proof at the coupled level (`Conn`) has to supply is one state predicate, `Tight`; under it the
  exception is gone: `release_exact_under_tight_partial`; and the coupling itself is made precise:
  `pop_frame_runs_without_outstanding_remainder_partial`.

  Vocabulary (ConnFlowP): `Reach s`, `total s = Σ available + conn.available`, `KeysOk` (slab keys unique and
  below `next_key`: part of `SafeInv`, every reachable state).
-/
set_option autoImplicit false
namespace H2V.Props.C16Cover
open H2V H2V.Model H2V.Model.Conn H2V.Lemmas.ConnFlowP H2V.Lemmas.ConnPartP

/-- **the ledger is NOT exact in every `Reach` state** (finding about the abstraction, not about h2).
    `LedgerCex.a9` is reached by: `send_request` (stream 1), `poll_complete` (HEADERS written),
    `reserve_capacity(10000)`, `send_data(3000)`, `poll_complete` with a writer of max frame size 2000 on a
    blocked transport (2000 octets in the codec, a 1000-octet remainder in flight), drop of all handles
    (implicit CANCEL scheduled; the excess goes back, 1000 kept for the remainder), `poll_complete` with a
    FRESH writer (the remainder is not handed back; the stream's queue is empty, so RST_STREAM goes out and
    the stream is `Reset` with 1000 octets still "buffered" and its old request of 8000 still recorded),
    WINDOW_UPDATE(1, 1) (`try_assign_capacity` tops the stream up to 8000), `poll_complete` with a third
    writer that hands back a 1000-octet remainder (sent — after the RST_STREAM —, the stream is closed,
    unreferenced: released while holding 7000).  At the end the store is empty, no `assert!` has fired, and
    `Σ available + conn.available = 55 535` while the connection window is `62 535`: 7000 octets are gone
    for good. -/
theorem ledger_exact_counterexample :
    Reach LedgerCex.a9 ∧ LedgerCex.a9.store.slab = [] ∧ LedgerCex.a9.panicked = none ∧
    total LedgerCex.a9 = 55535 ∧ LedgerCex.a9.prio.flow.windowSize.val = 62535 :=
  ⟨LedgerCex.a9_reach, LedgerCex.a9_ledger⟩

/-- the mechanism, step by step: the chunk in the codec (`in_flight_data_frame = DataFrame(0)`, 1000 octets
    still counted as buffered, own queue empty); after the drop 1000 octets of capacity are kept for them and
    the request of 8000 stays recorded; after the foreign `poll_complete` the stream is `Reset(CANCEL,
    Library)` with 1000 octets "buffered" and the marker still set; the WINDOW_UPDATE raises its capacity to
    8000 -/
theorem ledger_counterexample_mechanism :
    LedgerCex.a5.prio.inFlightDataFrame = .dataFrame 0 ∧ (LedgerCex.a5.stream 0).bufferedSendData = 1000 ∧
    (LedgerCex.a5.stream 0).pendingSend = [] ∧
    (LedgerCex.a6.stream 0).sendFlow.available.val = 1000 ∧ (LedgerCex.a6.stream 0).requestedSendCapacity = 8000 ∧
    (LedgerCex.a7.stream 0).state = { inner := .closed (.error (.reset 1 8 .library)) } ∧
    (LedgerCex.a7.stream 0).bufferedSendData = 1000 ∧ LedgerCex.a7.prio.inFlightDataFrame = .dataFrame 0 ∧
    (LedgerCex.a8.stream 0).sendFlow.available.val = 8000 :=
  LedgerCex.a_steps

/-
  FULL STATEMENT (not proven): in every reachable CONNECTION (stream layer and codec coupled) the ledger is exact,
      `total c.streams = c.streams.prio.flow.windowSize.val`,
  equivalently: every stream `transition_after` releases holds no capacity.  The counterexample above shows that
  "every `Reach` state" (arbitrary writers) is too much to ask.  Proven below: (a) the exception of
  `C16.capacity_lost_only_by_release_partial` disappears under ONE state predicate, `Tight`; (b) the coupling that
  the counterexample breaks — `in_flight_data_frame` is set only while the codec holds the frame — makes
  `pop_frame` run only with `in_flight_data_frame = Nothing`, and `dst.buffer(DATA)` establishes it.  Missing:
  `Tight` (and `MarkerCoupled`) as invariants of every reachable connection — see the notes for the list of
  invariants this needs through all ≈170 functions.
-/
/-- **under `Tight` the exception is gone**: in a state with unique slab keys in which every entry that
    `Stream::is_closed()` (state `Closed`, own queue empty, nothing buffered) holds no send capacity,
    `transition_after` keeps `Σ available + conn.available` EXACTLY — whatever it unlinks, un-counts or
    releases.  (`Tight` is what a proof at the coupled `Conn` level has to establish; it is the ONE fact
    ConnFlowP found missing.  It is not proved here for reachable connections — see the notes for the
    invariants it needs and the paths checked by hand.) -/
theorem release_exact_under_tight_partial {t : Streams} (hk : KeysOk t.store) (ht : Tight t) (id : Nat) (b : Bool) :
    total (t.transitionAfter id b) = total t :=
  release_loses_nothing_of_tight hk ht id b

/-- **`pop_frame` never sees an outstanding DATA remainder when stream layer and codec are coupled.**
    `MarkerCoupled s w`: `in_flight_data_frame ≠ Nothing` only while the codec holds a DATA frame (`Next::Data`
    or `last_data_frame`).  After `reclaim_frame(dst)` — which `poll_complete` runs before every `pop_frame` — the
    coupling still holds, and a codec that `has_capacity()` (the condition under which `pop_frame` is called at
    all) means `in_flight_data_frame = Nothing`.  And `dst.buffer(DATA)` (`buffer_out`) sets the marker and hands
    the frame to the codec together, for every chunk within the max frame size (what `pop_frame` cuts:
    `C02.data_frame_within_windows`).  (Partial: that every OTHER function keeps `MarkerCoupled` — none but
    `buffer_out` sets the marker, `clear_queue` turns `DataFrame` into `Drop`, only `reclaim_frame` clears it —
    is by inspection, not proved.) -/
theorem pop_frame_runs_without_outstanding_remainder_partial (s : Streams) (w : Writer) (hc : MarkerCoupled s w) :
    MarkerCoupled (s.reclaimFrame w).1 (s.reclaimFrame w).2.1 ∧
    ((s.reclaimFrame w).2.1.hasCapacity = true → (s.reclaimFrame w).1.prio.inFlightDataFrame = .nothing) ∧
    (∀ (t : Streams) (v : Writer) (len : Nat) (flagEos : Bool) (fr : DataFrame), len ≤ v.maxFrameSize →
      MarkerCoupled (t.bufferOut v (.data len flagEos fr)).1 (t.bufferOut v (.data len flagEos fr)).2) :=
  ⟨(reclaimFrame_then_capacity s w hc).1, (reclaimFrame_then_capacity s w hc).2,
   fun t v len flagEos fr h => bufferOut_data_coupled t v len flagEos fr h⟩

/-- non-vacuity, and the link to the counterexample: a fresh stream layer is coupled with a fresh writer; the
    two foreign `poll_complete` calls of the counterexample are calls whose writer is NOT coupled with the stream
    layer (marker `DataFrame(0)`, codec empty) -/
example : MarkerCoupled LedgerCex.a0 {} ∧ ¬ MarkerCoupled LedgerCex.a6 {} ∧ LedgerCex.a6.prio.inFlightDataFrame = .dataFrame 0 := by
  refine ⟨fun h => absurd rfl h, fun h => ?_, by decide +kernel⟩
  have hm : LedgerCex.a6.prio.inFlightDataFrame = .dataFrame 0 := by decide +kernel
  rcases h (by rw [hm]; intro e; cases e) with h | h <;> cases h

/-- non-vacuity: `C16.exState`-like state — one open stream holding 10 octets of capacity — is `Tight` (no
    entry is closed) and has unique keys; and `Tight` is not trivially true: the state before the release
    in the counterexample is NOT tight (a closed entry with 7000) -/
def exState : Streams :=
  { store := { slab := [{ key := 0, id := 1, state := { inner := .open .streaming .streaming },
                          isPendingSend := true, sendFlow := ⟨⟨100⟩, ⟨10⟩⟩, requestedSendCapacity := 10,
                          bufferedSendData := 10, pendingSend := [.data 10 true] }],
               ids := [(1, 0)], nextKey := 1 },
    actions := { send := { prioritize := { pendingSend := [0], flow := ⟨⟨65535⟩, ⟨65525⟩⟩ } } } }

example : KeysOk exState.store ∧ Tight exState := by
  refine ⟨⟨by decide, by intro x hx; simp [exState] at hx; subst hx; decide⟩, ?_⟩
  intro x hx hc
  simp [exState] at hx; subst hx
  revert hc; decide

end H2V.Props.C16Cover

#print axioms H2V.Props.C16Cover.ledger_exact_counterexample
#print axioms H2V.Props.C16Cover.ledger_counterexample_mechanism
#print axioms H2V.Props.C16Cover.release_exact_under_tight_partial
#print axioms H2V.Props.C16Cover.pop_frame_runs_without_outstanding_remainder_partial
