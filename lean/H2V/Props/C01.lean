import H2V.Props.C12
import H2V.Props.C11
import H2V.Props.C10
/-
  C01 — end-to-end message fidelity under any fragmentation and schedule.
  Property theorems only.  This file assembles the transport-facing half of the chain
      submitted head/body --HPACK encode--> block --split--> frames --partial writes--> octets
      octets --arbitrary read chunks--> frames --reassembly + HPACK decode--> delivered head/body
  from the codec-level theorems (C10, C11, C12).  The stream-layer half (per-stream frame order in
  `prioritize.rs`, receive buffering in `recv.rs`) is tied by the connection model and, end to end,
  by the two-endpoint differential runs (`e2e-*` profiles); see DESIGN.md §4 C01 for what is partial.
-/
namespace H2V.Props.C01
open H2V H2V.Model.Frame H2V.Model.CodecRead H2V.Model.CodecWrite H2V.Lemmas.Codec

/-- **sending side**: whatever the pattern of short writes and `Pending`s, the transport receives
    exactly (a prefix of) the serialisations of the buffered frames, in order: nothing is
    duplicated, dropped or reordered -/
theorem writer_bytes_exact (ops : List Lemmas.Codec.Op) (w : Writer) (hwf : WF w)
    (hct : 0 < w.chainThreshold) (hmf : 4 < w.maxFrame) :
    (run w ops).2.1 ++ pendingBytes (run w ops).1 = pendingBytes w ++ (run w ops).2.2 :=
  Props.C12.writer_bytes_exact ops w hwf hct hmf

/-- **receiving side**: whatever the chunking of the transport reads, the same frames come out -/
theorem reader_chunk_invariance (r : Reader) (chunks : List Bytes) (hq : chunks = [] → Quiescent r) :
    (feedAll r chunks).2 = (feedAll r [chunks.flatten]).2 :=
  Props.C12.reader_chunk_invariance r chunks hq

/-- **frames survive the wire**: serialised frames, cut into arbitrary chunks, are delivered as
    exactly those frames and the reader is back at a frame boundary -/
theorem frames_survive_any_chunking (maxLen : Nat) (l : List (Bytes × Model.Frame.Frame))
    (hl : ∀ x ∈ l, FrameBytes maxLen x.1 x.2)
    (r : Reader) (hb : AtBoundary r) (hpb : r.partialBlk = none) (hm : r.maxFrameLen = maxLen)
    (c : Bytes) (cs : List Bytes) (hc : (c :: cs).flatten = (l.map (·.1)).flatten) :
    feedAll r (c :: cs) = (r, l.map (fun x => Item.frame x.2), false) :=
  Props.C12.wire_roundtrip_any_chunking maxLen l hl r hb hpb hm c cs hc

/-- **heads survive HPACK for every history**: every header list submitted is read back, in order,
    by a conforming decoder that has seen the earlier blocks (and h2's own decoder refines that
    decoder: `Props.C11.decode_sound`) -/
theorem heads_survive_hpack (n : Nat) (ops : List Lemmas.HpackEnc.Op) (hwf : Lemmas.HpackEnc.WF ops) :
    Lemmas.HpackEnc.runOk (Model.Hpack.Encoder.new n) (Spec.HpackSync.Mon.init (min n 4096)) ops :=
  Props.C10.roundtrip_history n ops hwf

/-- **… however the block is split into HEADERS / CONTINUATION fragments** -/
theorem heads_survive_fragmentation (d : Model.Hpack.Decoder) (a : Bytes) (frags : List Bytes) :
    d.decode (a ++ frags.flatten) = frags.foldl Lemmas.HpackDec.feed (d.decode a) :=
  Props.C11.split_invariance d a frags

end H2V.Props.C01
