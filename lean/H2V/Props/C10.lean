import H2V.Props.C10Tables
import H2V.Lemmas.HpackEnc
import H2V.Lemmas.Huffman
import H2V.Lemmas.HpackDec
import H2V.Props.C11
import H2V.Props.C12
/-
  C10 — HPACK encoder and decoder stay in sync.  Property theorems only.
-/
namespace H2V.Props.C10
open H2V H2V.Model.Hpack H2V.Lemmas.HpackEnc

/-- **decode(encode(h)) = h for every history.** From `Encoder::new(n)` against a conforming RFC 7541
    decoder that starts with the same table size, for EVERY sequence of peer
    SETTINGS_HEADER_TABLE_SIZE changes (any values, repeated, including 0) and submitted header
    lists (any names, values, repeats, sensitive values, the `HeaderMap` "nameless" yields; octets
    < 256, lengths < 2^59), `Encoder::encode` never panics and every emitted block is accepted by
    the reference monitor `Spec.HpackSync.Mon.block`: the reference decoder reads back exactly the
    submitted fields in order, the table never exceeds what the peer allows, and a reduction is
    signalled at the start of the block (minimum first). -/
theorem roundtrip_history (n : Nat) (ops : List Op) (hwf : WF ops) :
    runOk (Encoder.new n) (Spec.HpackSync.Mon.init (min n 4096)) ops :=
  Lemmas.HpackEnc.roundtrip_history n ops hwf

/-- the encoder's dynamic table: exact size accounting, never above its maximum, maximum never above
    4096, in every reachable state -/
theorem table_bounded (n : Nat) (ops : List Op) (hwf : WF ops) (e : Encoder) (m : Spec.HpackSync.Mon)
    (hrun : run (Encoder.new n) (Spec.HpackSync.Mon.init (min n 4096)) ops = some (e, m)) :
    e.size = Spec.Hpack.tableSize e.entries ∧ e.size ≤ e.maxSize ∧ e.maxSize ≤ 4096 :=
  Lemmas.HpackEnc.table_bounded n ops hwf e m hrun

/-- at every block end the table maximum is exactly min(what the peer allowed, 4096) and no size
    update is left pending -/
theorem table_bounded_block_end (n : Nat) (ops : List Op) (fs : List Field)
    (hwf : WF (ops ++ [.block fs])) (e : Encoder) (m : Spec.HpackSync.Mon)
    (hrun : run (Encoder.new n) (Spec.HpackSync.Mon.init (min n 4096)) (ops ++ [.block fs]) = some (e, m)) :
    e.size ≤ e.maxSize ∧ e.maxSize = min m.allowed 4096 ∧ e.sizeUpdate = none :=
  Lemmas.HpackEnc.table_bounded_block_end n ops fs hwf e m hrun

/-- a reduction of the allowed table size is signalled by a size update at the very start of the
    next block, with a value not above the reduced size -/
theorem reduction_signalled_first (e : Encoder) (m : Spec.HpackSync.Mon) (v : Nat) (fs : List Field)
    (hs : Sync e m) (hv : v < e.maxSize) (e' : Encoder) (bytes : Bytes)
    (henc : (e.updateMaxSize v).encode fs = some (e', bytes)) :
    ∃ u, Spec.HpackSync.leadingSizeUpdate bytes = some u ∧ u ≤ v :=
  Lemmas.HpackEnc.reduction_signalled_first e m v fs hs hv e' bytes henc

/-- **… including h2's own decoder.** The monitor of `roundtrip_history` is the RFC 7541 reference;
    this ties the encoder's output to the *mirror of `hpack/decoder.rs`* as well: whenever the
    reference accepts an emitted block as `fields` (which `roundtrip_history` gives for every
    history) and h2's own decoder, in a state whose abstraction is the reference's state, accepts
    the block, it reads back exactly the submitted fields in order and its dynamic table is again
    the reference's — so the two stay in lock-step for the next block (C10 ∘ C11 `decode_sound`).
    That h2's decoder does accept is not claimed here (it refuses some blocks the RFC allows, e.g.
    an empty field name); the byte-exact correspondence runs cover that direction. -/
theorem own_decoder_reads_back_the_submitted_fields
    (m m' : Spec.HpackSync.Mon) (fields : List Spec.Hpack.Field) (bytes : Bytes)
    (hblock : m.block fields bytes = .ok m')
    (d : Decoder) (habs : Lemmas.HpackDec.abs d = m.st)
    (hi : Lemmas.HpackDec.Table.Inv d.table) (hv : Bytes.Valid bytes) (hc : d.continuing = false)
    (hr : (d.decode bytes).result = .ok ()) :
    (d.decode bytes).fields = fields ∧ Lemmas.HpackDec.abs (d.decode bytes).dec = m'.st := by
  have hs := (Lemmas.HpackDec.decode_sound (fun bs h => Lemmas.Huffman.decode_eq_spec bs h) d bytes hi hv hc hr).1
  rw [habs] at hs
  unfold Spec.HpackSync.Mon.block at hblock
  simp only [hs] at hblock
  repeat' split at hblock
  all_goals first | (simp at hblock; done) | skip
  all_goals
    rename_i hf _ _
    simp only [Except.ok.injEq] at hblock
    subst hblock
    exact ⟨by simpa using hf, rfl⟩

/-- the reference monitor over a sequence of (submitted fields, emitted block) pairs -/
def monBlocks (m : Spec.HpackSync.Mon) : List (List Spec.Hpack.Field × Bytes) → Option Spec.HpackSync.Mon
  | [] => some m
  | (fs, b) :: rest =>
    match m.block fs b with
    | .ok m' => monBlocks m' rest
    | .error _ => none

/-- **lock-step over whole histories, blocks cut into CONTINUATION fragments.** For ANY sequence of
    emitted blocks that the reference monitor accepts for the submitted field lists (what
    `roundtrip_history` gives), each cut into a HEADERS fragment and any CONTINUATION fragments:
    if h2's own decoder — started from a state abstracting to the reference's, fed fragment by
    fragment, carrying its table from block to block — accepts them all, it hands out exactly the
    submitted field lists, in order, and ends with the reference's dynamic table. -/
theorem own_decoder_lockstep_history
    (blocks : List (List Spec.Hpack.Field × Bytes × List Bytes))
    (m m' : Spec.HpackSync.Mon) (d : Decoder)
    (habs : Lemmas.HpackDec.abs d = m.st)
    (hi : Lemmas.HpackDec.Table.Inv d.table) (hc : d.continuing = false)
    (hv : ∀ b ∈ blocks, Bytes.Valid (b.2.1 ++ b.2.2.flatten))
    (hm : monBlocks m (blocks.map fun b => (b.1, b.2.1 ++ b.2.2.flatten)) = some m')
    (fs : List (List Header)) (d' : Decoder)
    (hd : C11.blocksOk d (blocks.map fun b => (b.2.1, b.2.2)) = some (fs, d')) :
    fs = blocks.map (·.1) ∧ Lemmas.HpackDec.abs d' = m'.st := by
  induction blocks generalizing m d fs d' with
  | nil =>
    simp only [List.map_nil, monBlocks, C11.blocksOk, Option.some.injEq, Prod.mk.injEq] at hm hd
    obtain ⟨rfl, rfl⟩ := hd
    subst hm
    exact ⟨rfl, habs⟩
  | cons b rest ih =>
    obtain ⟨fields, a, frags⟩ := b
    simp only [List.map_cons, monBlocks, C11.blocksOk] at hm hd
    split at hm
    · rename_i m1 hb
      split at hd
      · rename_i hr
        have hvb : Bytes.Valid (a ++ frags.flatten) := hv (fields, a, frags) (by simp)
        have hsplit := Lemmas.HpackDec.split_invariance_list d a frags
        rw [← hsplit] at hr hd
        obtain ⟨hf, ha⟩ := own_decoder_reads_back_the_submitted_fields m m1 fields _ hb d habs hi hvb hc hr
        have hi' := Lemmas.HpackDec.decode_preserves_inv d (a ++ frags.flatten) hi
        have hc' := Lemmas.HpackDec.decode_continuing_false d (a ++ frags.flatten)
        cases hrest : C11.blocksOk (d.decode (a ++ frags.flatten)).dec (rest.map fun b => (b.2.1, b.2.2)) with
        | none => rw [hrest] at hd; simp at hd
        | some r =>
          obtain ⟨fs', d''⟩ := r
          rw [hrest] at hd
          simp only [Option.map_some, Option.some.injEq, Prod.mk.injEq] at hd
          obtain ⟨rfl, rfl⟩ := hd
          obtain ⟨h1, h2⟩ := ih m1 _ ha hi' hc' (fun b hb => hv b (by simp [hb])) hm fs' d'' hrest
          exact ⟨by rw [hf, h1]; rfl, h2⟩
      · cases hd
    · cases hm

/-- **… cut by h2's own writer.** The HPACK block of a HEADERS / PUSH_PROMISE frame, cut by
    `splitBlock` (the mirror of `frame::headers` + `Continuation::encode`) under ANY peer max frame
    size, appears on the wire — as seen by the independent RFC 9113 parser — as one head frame plus
    CONTINUATION frames, and feeding exactly those fragments one by one to the decoder mirror, if it
    accepts, yields what the RFC 7541 reference assigns to the uncut block (C12
    `parse_serialize_header_block` ∘ C11 `fragments_decode_sound`): the cut points the writer
    chooses never change what is read back. -/
theorem block_cut_by_the_writer_reads_back (fuel maxFrame kind flags sid : Nat) (pre hpack : Bytes) (F maxSize : Nat)
    (hpre : pre.length < maxFrame) (hmax : maxFrame < 2 ^ 24) (hs0 : sid ≠ 0) (hs : sid < 2 ^ 31)
    (hfuel : hpack.length < fuel) (hF : fuel < F) (hms : maxFrame ≤ maxSize) :
    ∃ frag0 frags,
      Spec.Frame.frames F maxSize (Model.Frame.splitBlock fuel maxFrame kind flags sid pre hpack) =
        (Spec.Frame.ofParts kind (if frags.isEmpty then flags else flags - 4) sid (pre ++ frag0)
          :: (Lemmas.Codec.contFrames sid frags).map .ok, []) ∧
      ∀ (d : Decoder), Lemmas.HpackDec.Table.Inv d.table → Bytes.Valid hpack → d.continuing = false →
        (frags.foldl Lemmas.HpackDec.feed (d.decode frag0)).result = .ok () →
        Spec.Hpack.decode (Lemmas.HpackDec.abs d) hpack
          = .ok ((frags.foldl Lemmas.HpackDec.feed (d.decode frag0)).fields,
                 Lemmas.HpackDec.abs (frags.foldl Lemmas.HpackDec.feed (d.decode frag0)).dec) := by
  obtain ⟨frag0, frags, hcat, -, -, hframes⟩ :=
    C12.parse_serialize_header_block fuel maxFrame kind flags sid pre hpack F maxSize hpre hmax hs0 hs hfuel hF hms
  refine ⟨frag0, frags, hframes, ?_⟩
  intro d hi hv hc hr
  subst hcat
  exact (C11.fragments_decode_sound d frag0 frags hi hv hc hr).1

-- non-vacuity: a concrete history (shrink to 100, two blocks with a repeated and a nameless field) is well-formed
example : WF [.setMax 100, .block [⟨([120, 45, 97], [49]), false, false⟩, ⟨([120, 45, 97], [50]), false, true⟩],
              .block [⟨([120, 45, 97], [49]), false, false⟩]] := by decide

-- non-vacuity of `own_decoder_reads_back_the_submitted_fields`: from the initial states the abstraction
-- agrees, and a block with an indexed field and a literal that enters the table is accepted by both
open H2V.Model.Hpack in
example : Lemmas.HpackDec.abs (Decoder.new 4096) = (Spec.HpackSync.Mon.init 4096).st := by decide +kernel
open H2V.Model.Hpack in
example : (match (Spec.HpackSync.Mon.init 4096).block ((Decoder.new 4096).decode [130, 64, 1, 97, 1, 98]).fields
              [130, 64, 1, 97, 1, 98] with | .ok _ => true | .error _ => false) = true ∧
    (match ((Decoder.new 4096).decode [130, 64, 1, 97, 1, 98]).result with
      | .ok _ => true | .error _ => false) = true := by decide +kernel

-- non-vacuity of the lock-step theorem: two blocks (the first cut inside the literal that enters the
-- table, the second referring to the new entry) are accepted by the monitor and by the decoder mirror
open H2V.Model.Hpack in
example :
    (monBlocks (Spec.HpackSync.Mon.init 4096)
      [([([58, 109, 101, 116, 104, 111, 100], [71, 69, 84]), ([97], [98])], [130, 64, 1, 97, 1, 98]),
       ([([97], [98])], [190])]).isSome = true ∧
    (C11.blocksOk (Decoder.new 4096) [([130, 64, 1], [[97], [1, 98]]), ([190], [[]])]).isSome = true := by
  decide +kernel

-- non-vacuity: the arithmetic hypotheses of `block_cut_by_the_writer_reads_back` are met by a 6-octet
-- block under a 4-octet frame limit (two CONTINUATION frames)
example := block_cut_by_the_writer_reads_back 10 4 1 4 1 [] [130, 64, 1, 97, 1, 98] 11 16384
  (by decide) (by decide) (by decide) (by decide) (by decide) (by decide) (by decide)

end H2V.Props.C10
