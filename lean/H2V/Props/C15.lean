import H2V.Lemmas.ConnCtlPGraceful
import H2V.Lemmas.ConnCtlPGoAwaySent
import H2V.Lemmas.ConnCtlPHist
import H2V.Lemmas.ConnCtlPGoAwayAll
/-
  C15 — GOAWAY / shutdown: monotone last-stream-id, in-flight streams finish, the rest fail.
  Property theorems only (lemmas: `H2V/Lemmas/ConnCtlP*.lean`, notes: `H2V/Lemmas/ConnCtlPNOTES.md`).

  Vocabulary.  `GoAwayInv c`: the GOAWAY invariant of a connection (`last_processed_id ≤
  max_stream_id`; the id announced by the last GOAWAY built bounds `last_processed_id` and, before
  `go_away_now`, equals `max_stream_id`; the frame waiting to be written is the one announced).
  `view s`: the configuration-like fields of the stream layer (`lpi` = `recv.last_processed_id`,
  `rmax` = `recv.max_stream_id`, `connErr`, …).  `Halting`/`Dead`: `go_away_now` has run / the
  connection has left `Open`.  `Ev`, `protoPollT`, `Hist`: see `H2V/Props/C14.lean`.
-/
set_option autoImplicit false
namespace H2V.Props.C15
open H2V H2V.Model H2V.Model.Conn H2V.Lemmas.ConnCtlP

/-- a server that has exchanged SETTINGS with its peer and — set by hand, to keep the kernel
    evaluation of the examples cheap (no HPACK decoding) — has processed the peer's stream 1, whose
    entry (key 0) is still in the store -/
def demoServer : Conn :=
  let c := (Conn.protoPoll 50 (Conn.initServer {} false [0,0,0,4,0,0,0,0,0])).1
  let s := c.streams.modRecv fun r => { r with lastProcessedId := 1, nextStreamId := some 3 }
  { c with streams := { s with store := (s.store.insert (Stream.new 1 65535 65535)).1 } }

/-- **the GOAWAY invariant holds initially**, for both roles and every builder configuration -/
theorem invariant_initially (g : Conn.Cfg) (ecp : Bool) (peer : Bytes) :
    GoAwayInv (Conn.init g) ∧ GoAwayInv (Conn.initServer g ecp peer) :=
  ⟨goAwayInv_init g, goAwayInv_initServer g ecp peer⟩

/-- **the `assert!` of `GoAway::go_away` ("GOAWAY stream IDs shouldn't be higher") is exactly
    monotonicity of the announced id** -/
theorem go_away_assert_is_monotonicity (g : GoAway) (f : GoAwayFrame) :
    (g.goAway f).2 = true ↔ ∀ ga, g.goingAway = some ga → f.lastStreamId ≤ ga.lastProcessedId :=
  GoAway.goAway_ok_iff g f

/-- **`go_away_now` never trips it**: under the invariant, `go_away_now(reason)` — the path of every
    connection error, of the idle close and of `abrupt_shutdown` — announces `last_processed_id`,
    which is at or below the id announced before; the GOAWAY(last_processed_id, reason, debug) is
    queued unless exactly this GOAWAY was announced already; no panic is recorded; the invariant
    holds afterwards. -/
theorem go_away_now_monotone (c : Conn) (e : Reason) (d : Bytes) (h : GoAwayInv c) :
    GoAwayInv (c.goAwayNowData e d) ∧ (c.goAwayNowData e d).streams = c.streams ∧
    (c.goAwayNowData e d).goAway.goingAway = some { lastProcessedId := c.streams.recv.lastProcessedId, reason := e } ∧
    (∀ ga, c.goAway.goingAway = some ga → c.streams.recv.lastProcessedId ≤ ga.lastProcessedId) := by
  refine ⟨(goAwayNowData_inv c e d h).1, (goAwayNowData_inv c e d h).2, ?_, fun ga hga => h.lpi_le_ga ga hga⟩
  rw [goAwayNowData_eq c e d h]
  exact (goAwayNow_result c e d c.goAway.isUserInitiated h).2.1

example : GoAwayInv (Conn.init {}) := goAwayInv_init {}
example : GoAwayInv demoServer := by
  constructor <;> first | decide | (intro ga hga; revert hga; decide) | (intro f hf; revert hf; decide) | (intro h; revert h; decide)

/-- **`DynConnection::go_away(id, reason)` at its call sites** (`go_away_gracefully`: id = 2^31-1 on a
    connection not going away; the ACK of the shutdown PING: id = `last_processed_id`): with
    `last_processed_id ≤ id ≤ max_stream_id` and `id` at or below the announced id, neither the
    `assert!` of `GoAway::go_away` nor the one of `Recv::go_away` fires, GOAWAY(id, reason) is queued,
    `max_stream_id` becomes `id`, the invariant holds afterwards. -/
theorem go_away_call_sites (c : Conn) (id : Nat) (e : Reason)
    (h1 : (view c.streams).lpi ≤ id) (h2 : id ≤ (view c.streams).rmax)
    (h3 : ∀ ga, c.goAway.goingAway = some ga → id ≤ ga.lastProcessedId) :
    GoAwayInv (c.dynGoAway id e) ∧ (c.dynGoAway id e).streams = c.streams.recvGoAway id ∧
    (c.dynGoAway id e).goAway.pending = some { lastStreamId := id, reason := e } ∧
    (c.dynGoAway id e).goAway.goingAway = some { lastProcessedId := id, reason := e } ∧
    (c.dynGoAway id e).goAway.closeNow = c.goAway.closeNow ∧
    (c.dynGoAway id e).streams.panicked = c.streams.panicked :=
  dynGoAway_inv c id e h1 h2 h3

/-- **the frame written is the frame announced, and ids written never increase**: under the
    invariant `send_pending_go_away` hands to the codec exactly the pending frame, whose id is the
    announced one (`SentOK`: sent ids are sorted non-increasingly, bounded above by what was
    announced before and below by what is announced after); runs compose (`SentOK.trans`). -/
theorem sent_goaways_monotone (c : Conn) (h : GoAwayInv c) :
    GoAwayInv (sendPendingGoAwayT c).1.1 ∧ SentOK c (sendPendingGoAwayT c).2 (sendPendingGoAwayT c).1.1 :=
  ⟨(sendPendingGoAwayT_sent c h).1, (sendPendingGoAwayT_sent c h).2.1⟩

theorem sent_goaways_compose {a b c : Conn} {e1 e2 : List Ev} (h1 : SentOK a e1 b) (h2 : SentOK b e2 c) :
    SentOK a (e1 ++ e2) c := h1.trans h2

/-- **after GOAWAY(last) was sent, frames of the peer on streams above `last` are not processed**:
    `go_away(last, …)` sets `max_stream_id = last`; HEADERS and RST_STREAM above it are dropped
    without any change, DATA above it only passes connection flow control (`ignore_data`), a
    PUSH_PROMISE on an initiating stream above it is dropped. -/
theorem frames_above_cutoff_ignored (c : Conn) (last : Nat) (e : Reason) :
    (c.dynGoAway last e).streams.recv.maxStreamId = last ∧
    (∀ (s : Streams) (h : HeadersIn), h.sid > s.recv.maxStreamId → s.recvHeaders h = (s, .ok ())) ∧
    (∀ (s : Streams) (id : Nat) (r : Reason), id ≠ 0 → id > s.recv.maxStreamId → s.recvReset id r = (s, .ok ())) ∧
    (∀ (s : Streams) (id : Nat) (payload : Bytes) (eos : Bool) (pad : Option Nat),
      s.store.findKey? id = none → id > s.recv.maxStreamId →
      s.recvData id payload eos pad =
        (match s.ignoreData (usizeAsU32 (payload.length + (match pad with | some p => p + 1 | none => 0))) with
         | (s, .error e) => (s, .error e)
         | (s, .ok _) => (s, .ok ()))) :=
  ⟨dynGoAway_max c last e, recvHeaders_above_max, recvReset_above_max, recvData_above_max⟩

/-- **a received GOAWAY fails exactly the locally initiated streams above its last-stream-id (and
    those still waiting to be opened)**: `Inner::recv_go_away` is, literally, the check that the id
    does not exceed an earlier GOAWAY's (else PROTOCOL_ERROR), then for each stream of the store:
    `handle_error(remote GOAWAY(debug, reason))` iff `(id > last ∨ pending_open) ∧ locally
    initiated` — every other stream is passed over —, then `conn_error := remote GOAWAY`. -/
theorem recv_goaway_selects_streams (s : Streams) (last : Nat) (reason : Reason) (debug : Bytes) :
    s.recvGoAwayFrame last reason debug =
      (if last > s.actions.send.maxStreamId then (s, .error (PErr.libraryGoAway PROTOCOL_ERROR))
       else
        let s := s.modSend fun sd => { sd with maxStreamId := last }
        let err := PErr.remoteGoAway debug reason
        let s := s.storeForEach fun s id =>
          let st := s.stream id
          if (st.id > last || st.isPendingOpen) && s.counts.isLocalInit st.id then
            (s.transition id fun s => ((s.recvHandleError id err).sendHandleError id, ())).1
          else s
        ({ s with actions := { s.actions with connError := some err } }, .ok ())) :=
  recvGoAwayFrame_eq s last reason debug

/-- **… with the peer's reason and debug data** (partial: the effect of `Recv::handle_error` on the
    selected stream; that `Store::for_each` visits every stream, and that the rest of the closure —
    `Send::handle_error`, `transition_after` — does not change the state again, is not proven):
    the stream's state becomes `state.handle_error(err)`, which for a stream that was not closed is
    `Closed(Error(GoAway(debug, reason, Remote)))` (`ErrorAfterEndStream` if the peer had already
    ended the stream) and for a closed stream is the state itself. -/
theorem recv_goaway_fails_stream_partial (s : Streams) (k : Nat) (st : Stream) (debug : Bytes) (reason : Reason)
    (h : s.store.get? k = some st) :
    ((s.recvHandleError k (PErr.remoteGoAway debug reason)).stream k).state =
      st.state.handleError (PErr.remoteGoAway debug reason) ∧
    (st.state.isClosed = true → st.state.handleError (PErr.remoteGoAway debug reason) = st.state) ∧
    (st.state.isClosed = false →
      (st.state.handleError (PErr.remoteGoAway debug reason)).inner =
        .closed (if st.state.isRecvEndStream then .errorAfterEndStream (.goAway debug reason .remote)
                 else .error (.goAway debug reason .remote))) :=
  ⟨recvHandleError_state s k _ st h, (handleError_remoteGoAway st.state debug reason).1,
   (handleError_remoteGoAway st.state debug reason).2⟩

/-- non-vacuity: the demo server holds a stream under key 0 -/
example : (demoServer.streams.store.get? 0).map (·.id) = some 1 := by decide

/-- **a GOAWAY whose last-stream-id is above an earlier one's is a connection error** -/
theorem recv_goaway_increasing_is_error (s : Streams) (last : Nat) (reason : Reason) (debug : Bytes)
    (h : last > s.actions.send.maxStreamId) :
    s.recvGoAwayFrame last reason debug = (s, .error (PErr.libraryGoAway PROTOCOL_ERROR)) :=
  recvGoAwayFrame_increasing s last reason debug h

/-- **no new request after a GOAWAY was received (or any connection error)**: while `conn_error` is
    set, `send_request` and `poll_ready` fail with that error and change nothing. -/
theorem no_new_requests_after_goaway (s : Streams) (e : PErr) (h : s.actions.connError = some e)
    (isHead : Bool) (fields : List Hpack.Field) (eos : Bool) (pending : Option Nat) (tag : String) :
    s.sendRequest isHead fields eos pending = (s, .error (.proto e)) ∧
    s.pollPendingOpen pending tag = (s, .error (.proto e)) :=
  ⟨sendRequest_after_connError s e h isHead fields eos pending, pollPendingOpen_after_connError s e h pending tag⟩

/-- **the connection's result reports the peer's code and debug data**: `recv_frame(GOAWAY)`
    remembers the frame; in the `Closed` state `Connection::poll` answers `take_error`, which is the
    REMOTE GOAWAY error with the peer's reason and debug data whenever the peer's reason is not
    NO_ERROR (and `Ok` / our own reason otherwise). -/
theorem result_reports_peer_goaway (c : Conn) (last code : Nat) (debug : Bytes) (s : Streams) (u : Unit)
    (h : c.streams.recvGoAwayFrame last code debug = (s, .ok u)) (ours : Reason) (i : Initiator) (fuel : Nat) :
    c.recvFrame (some (.goAway last code debug)) =
      ({ c with streams := s, error := some { lastStreamId := last, reason := code, debugData := debug } }, .ok .continue) ∧
    (∀ c' : Conn, c'.error = some { lastStreamId := last, reason := code, debugData := debug } → code ≠ NO_ERROR →
      c'.state = .closed ours i →
      (Conn.protoPoll (fuel + 1) c').2 = .ready (.error (PErr.remoteGoAway debug code))) := by
  refine ⟨recvFrame_goAway_error c last code debug s u h, fun c' he hc hs => ?_⟩
  rw [protoPoll_closed fuel c' ours i hs]
  exact congrArg PollRes.ready ((takeError_spec c' ours i).2.1 _ he hc)

/-- **graceful shutdown, stage 1** — `graceful_shutdown` on a connection that is not going away
    queues GOAWAY(2^31-1, NO_ERROR) — nothing is cut off yet — and arms the shutdown PING. -/
theorem graceful_stage1 (c : Conn) (h : GoAwayInv c) (hn : c.goAway.goingAway = none)
    (hp : c.pingPong.pendingPing = none) :
    GoAwayInv c.goAwayGracefully ∧
    c.goAwayGracefully.goAway.pending = some { lastStreamId := STREAM_ID_MAX, reason := NO_ERROR } ∧
    c.goAwayGracefully.goAway.goingAway = some { lastProcessedId := STREAM_ID_MAX, reason := NO_ERROR } ∧
    c.goAwayGracefully.goAway.closeNow = c.goAway.closeNow ∧
    c.goAwayGracefully.streams.recv.maxStreamId = STREAM_ID_MAX ∧
    c.goAwayGracefully.streams.panicked = c.streams.panicked ∧
    c.goAwayGracefully.pingPong.pendingPing =
      some { payload := Generated.Consts.PING_SHUTDOWN_PAYLOAD, sent := false } :=
  goAwayGracefully_spec c h hn hp

example : demoServer.goAway.goingAway = none ∧ demoServer.pingPong.pendingPing = none := by decide

/-- **graceful shutdown, stage 2** — the ACK of the shutdown PING queues the second GOAWAY with the
    real cut-off `last_processed_id` and makes it effective (`max_stream_id`): requests the peer
    sent before it saw the first GOAWAY are all at or below it and run to completion, later ones
    are ignored. -/
theorem graceful_stage2 (c : Conn) (h : GoAwayInv c) (pp : PendingPing)
    (hping : c.pingPong.pendingPing = some pp) (hpay : pp.payload = Generated.Consts.PING_SHUTDOWN_PAYLOAD)
    (hpong : c.pingPong.pendingPong = none) (hga : c.goAway.goingAway.isSome = true) :
    let c' := (c.recvFrame (some (.ping true Generated.Consts.PING_SHUTDOWN_PAYLOAD))).1
    (c.recvFrame (some (.ping true Generated.Consts.PING_SHUTDOWN_PAYLOAD))).2 = .ok .continue ∧
    GoAwayInv c' ∧ c'.pingPong.pendingPing = none ∧
    c'.goAway.pending = some { lastStreamId := c.streams.recv.lastProcessedId, reason := NO_ERROR } ∧
    c'.goAway.goingAway = some { lastProcessedId := c.streams.recv.lastProcessedId, reason := NO_ERROR } ∧
    c'.streams.recv.maxStreamId = c.streams.recv.lastProcessedId ∧
    c'.streams.panicked = c.streams.panicked :=
  recvFrame_shutdown_pong c h pp hping hpay hpong hga

/-- non-vacuity of stages 1–2 and of the monotone ids on a concrete run: the demo server shuts down
    gracefully, the peer acknowledges the PING: GOAWAY(2^31-1) then GOAWAY(1) are sent -/
example :
    let c1 := (protoPollT 50 demoServer.goAwayGracefully).1.1
    let c2 : Conn := { c1 with codec := { c1.codec with io := { c1.codec.io with
      rd := [0,0,8,6,1,0,0,0,0] ++ Generated.Consts.PING_SHUTDOWN_PAYLOAD } } }
    (sentG (protoPollT 50 demoServer.goAwayGracefully).2).map (·.lastStreamId) = [2147483647] ∧
    (sentG (protoPollT 50 c2).2).map (·.lastStreamId) = [1] ∧
    (protoPollT 50 c2).1.1.streams.recv.maxStreamId = 1 := by decide

/-- **graceful shutdown, stage 3** — once the real cut-off is announced, `should_close_on_idle`
    holds; `Connection::poll` then runs `go_away_now(NO_ERROR)` as soon as `poll_complete` is done
    and no stream is counted any more — after which it reads nothing, flushes, and closes
    (`C14`/`C09`: a halting connection only writes its GOAWAY). -/
theorem graceful_stage3 (g : GoAway) :
    g.shouldCloseOnIdle = true ↔
      g.closeNow = false ∧ ∃ ga, g.goingAway = some ga ∧ ga.lastProcessedId ≠ STREAM_ID_MAX :=
  shouldCloseOnIdle_iff g

/-- **abrupt shutdown / connection error: nothing is processed afterwards** — once `go_away_now`
    has run (`Halting`) or the state left `Open`, `Connection::poll` reads no frame and acknowledges
    nothing: the only frames it hands to the codec are GOAWAYs, and it stays that way. -/
theorem nothing_processed_after_go_away_now (fuel : Nat) (c : Conn) (h : Dead c) :
    OnlyGoAway (protoPollT fuel c).2 ∧ Dead (protoPollT fuel c).1.1 :=
  ⟨(protoPollT_dead fuel c h).1, (protoPollT_dead fuel c h).2.1⟩

/-- `abrupt_shutdown(reason)` makes the connection halting -/
example (c : Conn) (e : Reason) : Halting (c.goAwayFromUser e) := (inert_goAwayFromUser c e).2

/-- **the GOAWAY invariant holds in every reachable state — so none of the GOAWAY `assert!`s can
    fire.**  `Hist15 c0 evs c`: the connection got from `c0` to `c` by any interleaving of
    `proto::Connection::poll` / `client::Connection::poll` (any waker, any fuel, any transport
    state), `graceful_shutdown`, `abrupt_shutdown(reason)`, and calls that leave `goAway`,
    `last_processed_id`, `max_stream_id` alone (`Keep15` — every handle call and transport event of
    the driver, see `driver_calls_keep`).  Together with `go_away_call_sites` /
    `go_away_now_monotone` (under the invariant the asserts hold at each call site) this is: the
    `assert!`s of `GoAway::go_away` ("GOAWAY stream IDs shouldn't be higher") and of `Recv::go_away`
    (`max_stream_id >= last_processed_id`) never fire. -/
theorem goaway_invariant_in_every_reachable_state {c0 c : Conn} {evs : List Ev} (h : Hist15 c0 evs c)
    (h0 : GoAwayInv c0) : GoAwayInv c :=
  (hist15_final h h0).1

/-- **the last-stream-ids of the GOAWAY frames an endpoint sends never increase** — over every
    history: in the order handed to the codec the ids are sorted non-increasingly, each is at most
    what was announced before the history started (if anything) and at least what is announced at
    its end. -/
theorem goaway_last_stream_ids_never_increase {c0 c : Conn} {evs : List Ev} (h : Hist15 c0 evs c)
    (h0 : GoAwayInv c0) :
    (sentG evs).Pairwise (fun a b => b.lastStreamId ≤ a.lastStreamId) ∧
    (∀ f ∈ sentG evs, ∃ m', gaLast c = some m' ∧ m' ≤ f.lastStreamId) ∧
    (∀ f ∈ sentG evs, ∀ m, gaLast c0 = some m → f.lastStreamId ≤ m) :=
  ⟨(hist15_final h h0).2.sorted, (hist15_final h h0).2.lower, (hist15_final h h0).2.upper⟩

/-- **no GOAWAY sent is below a stream the endpoint has processed**: every GOAWAY frame of the
    history announces at least the `last_processed_id` of the state reached — the highest
    peer-initiated stream `recv_headers` has counted (and `accepted_request_is_counted_partial`: a
    request is counted before it is queued for the application). -/
theorem goaways_cover_processed_streams {c0 c : Conn} {evs : List Ev} (h : Hist15 c0 evs c) (h0 : GoAwayInv c0) :
    ∀ f ∈ sentG evs, c.streams.recv.lastProcessedId ≤ f.lastStreamId :=
  hist15_covers_final h h0

/-- non-vacuity, and graceful shutdown end to end on a concrete connection: the demo server (no
    stream in flight) shuts down gracefully, is polled, the peer's PING ACK arrives (a transport
    event: `Keep15`), it is polled again — GOAWAY(2^31-1) then GOAWAY(1) were sent, the connection is
    `Closed` with NO_ERROR and the transport was shut down -/
example : ∃ evs c, Hist15 demoServer evs c ∧ (sentG evs).map (·.lastStreamId) = [2147483647, 1] ∧
    c.streams.recv.lastProcessedId = 1 ∧ c.state = .closed NO_ERROR .library ∧ c.codec.io.shutdownCalled = true := by
  let c1 := (protoPollT 50 { demoServer.goAwayGracefully with cx := "c" }).1.1
  let c2 : Conn := { c1 with codec := { c1.codec with io := { c1.codec.io with
    rd := [0,0,8,6,1,0,0,0,0] ++ Generated.Consts.PING_SHUTDOWN_PAYLOAD } } }
  have h1 : Hist15 demoServer _ c1 := Hist15.serverPoll "c" 50 (Hist15.graceful Hist15.init)
  have h2 : Hist15 demoServer _ c2 := Hist15.call c2 h1 (Keep15.of_view rfl rfl)
  exact ⟨_, _, Hist15.serverPoll "c" 50 h2, by decide, by decide, by decide, by decide⟩

/-- **no new stream is started after a GOAWAY was received — ever**: once `conn_error` is set (by
    `recv_go_away`, and likewise by any connection error, transport error or end of input) it stays
    set over every history (polls, shutdown calls, all handle calls), so every later `send_request`
    fails with a connection-level error and changes nothing.  (`Hist15` steps of kind `call` are
    required not to clear `conn_error`; no function of the model does — `driver_calls_keep`.) -/
theorem no_new_requests_ever_after_goaway {c0 c : Conn} {evs : List Ev} (h : Hist15 c0 evs c) (h0 : GoAwayInv c0)
    (he : c0.streams.actions.connError.isSome = true) :
    ∃ e, c.streams.actions.connError = some e ∧
      ∀ isHead fields eos pending, c.streams.sendRequest isHead fields eos pending = (c.streams, .error (.proto e)) :=
  hist15_connErr_persists h h0 he

/-- **every user-side call of the driver is such a step**: the handle functions of `Streams`
    (`send_request`, `poll_ready`, `send_data`, `send_trailers`, `send_reset`, `reserve_capacity`,
    `poll_capacity`, `poll_reset`, `send_response`, `send_informational`, `push_request`,
    `next_incoming`/`take_request`, `poll_response`, `poll_informational`, `poll_data`,
    `poll_trailers`, `release_capacity`, `clear_recv_buffer`, clones and drops of handles,
    `set_target_window_size`) write nothing of the view — in particular not `last_processed_id` /
    `max_stream_id` / `conn_error`.  (The same for everything `Connection::poll` calls except
    `recv_headers`, `recv_go_away`, `handle_error`, `recv_eof`, `apply_*_settings`: files
    `ConnCtlPView*.lean`, ~250 frame lemmas.) -/
theorem driver_calls_keep (s : Streams) :
    (∀ a b c d, view (s.sendRequest a b c d).1 = view s) ∧ (∀ a b, view (s.pollPendingOpen a b).1 = view s) ∧
    (∀ k n e, view (s.refSendData k n e).1 = view s) ∧ (∀ k f, view (s.refSendTrailers k f).1 = view s) ∧
    (∀ k r, view (s.refSendReset k r) = view s) ∧ (∀ k n, view (s.refReserveCapacity k n) = view s) ∧
    (∀ k t, view (s.pollCapacity k t).1 = view s) ∧ (∀ k m t, view (s.pollReset k m t).1 = view s) ∧
    (∀ k f e, view (s.refSendResponse k f e).1 = view s) ∧ (∀ k f, view (s.refSendInformationalHeaders k f).1 = view s) ∧
    (∀ k v f, view (s.refSendPushPromise k v f).1 = view s) ∧ view s.nextIncoming.1 = view s ∧
    (∀ k, view (s.recvTakeRequest k).1 = view s) ∧ (∀ n k t, view (Streams.recvPollResponse n s k t).1 = view s) ∧
    (∀ k t, view (s.recvPollInformational k t).1 = view s) ∧ (∀ k t, view (s.refPollData k t).1 = view s) ∧
    (∀ k t, view (s.recvPollTrailers k t).1 = view s) ∧ (∀ k n, view (s.refReleaseCapacity k n).1 = view s) ∧
    (∀ k, view (s.refClearRecvBuffer k) = view s) ∧ (∀ k, view (s.cloneStreamRef k) = view s) ∧
    (∀ k, view (s.dropStreamRef k) = view s) ∧ view s.cloneHandle = view s ∧ view s.dropHandle = view s ∧
    (∀ n, view (s.setTargetConnectionWindow n).1 = view s) ∧ (∀ t, view (s.wake t) = view s) :=
  ⟨fun _ _ _ _ => view_sendRequest .., fun _ _ => view_pollPendingOpen .., fun _ _ _ => view_refSendData ..,
   fun _ _ => view_refSendTrailers .., fun _ _ => view_refSendReset .., fun _ _ => view_refReserveCapacity ..,
   fun _ _ => view_pollCapacity .., fun _ _ _ => view_pollReset .., fun _ _ _ => view_refSendResponse ..,
   fun _ _ => view_refSendInformationalHeaders .., fun _ _ _ => view_refSendPushPromise .., view_nextIncoming ..,
   fun _ => view_recvTakeRequest .., fun _ _ _ => view_recvPollResponse .., fun _ _ => view_recvPollInformational ..,
   fun _ _ => view_refPollData .., fun _ _ => view_recvPollTrailers .., fun _ _ => view_refReleaseCapacity ..,
   fun _ => view_refClearRecvBuffer .., fun _ => view_cloneStreamRef .., fun _ => view_dropStreamRef ..,
   view_cloneHandle .., view_dropHandle .., fun _ => view_setTargetConnectionWindow .., fun _ => view_wake ..⟩

/-- **a request is counted in `last_processed_id` before it is queued for the application**
    (partial: stated for `Recv::recv_headers` on a fresh stream entry — state `Idle`, not counted,
    which is what `Inner::recv_headers` creates for an unknown id; that every key in `pending_accept`
    names such an entry needs per-key store invariants that are not proven): `recv_headers` writes
    nothing of the view but `last_processed_id`, only upwards and only to the frame's stream id, and
    unless it fails with a state/stream error the result is at or above that id — in particular
    when the request is queued in `pending_accept` (`.ok`). -/
theorem accepted_request_is_counted_partial (s : Streams) (k : Nat) (h : HeadersIn) :
    ∃ l, view (s.recvRecvHeaders k h).1 = { view s with lpi := l } ∧
      (l = (view s).lpi ∨ (l = h.sid ∧ (view s).lpi < h.sid)) ∧
      ((s.stream k).state.inner = .idle → (s.stream k).isCounted = false →
        (∀ e, (s.recvRecvHeaders k h).2 ≠ .state e) → h.sid ≤ l) :=
  view_recvRecvHeaders s k h

end H2V.Props.C15

#print axioms H2V.Props.C15.goaway_invariant_in_every_reachable_state
#print axioms H2V.Props.C15.goaway_last_stream_ids_never_increase
#print axioms H2V.Props.C15.goaways_cover_processed_streams
#print axioms H2V.Props.C15.no_new_requests_ever_after_goaway
#print axioms H2V.Props.C15.driver_calls_keep
#print axioms H2V.Props.C15.accepted_request_is_counted_partial
#print axioms H2V.Props.C15.invariant_initially
#print axioms H2V.Props.C15.go_away_assert_is_monotonicity
#print axioms H2V.Props.C15.go_away_now_monotone
#print axioms H2V.Props.C15.go_away_call_sites
#print axioms H2V.Props.C15.sent_goaways_monotone
#print axioms H2V.Props.C15.sent_goaways_compose
#print axioms H2V.Props.C15.frames_above_cutoff_ignored
#print axioms H2V.Props.C15.recv_goaway_selects_streams
#print axioms H2V.Props.C15.recv_goaway_fails_stream_partial
#print axioms H2V.Props.C15.recv_goaway_increasing_is_error
#print axioms H2V.Props.C15.no_new_requests_after_goaway
#print axioms H2V.Props.C15.result_reports_peer_goaway
#print axioms H2V.Props.C15.graceful_stage1
#print axioms H2V.Props.C15.graceful_stage2
#print axioms H2V.Props.C15.graceful_stage3
#print axioms H2V.Props.C15.nothing_processed_after_go_away_now
