import H2V.Generated.Huffman
import H2V.Generated.Static
import H2V.Spec.Rfc7541
/-
  C11, finite part: the tables regenerated from the Rust source are the RFC 7541 tables.
  (Separate file so that lemma files can depend on it without a cycle.)
-/
namespace H2V.Props.C11
open H2V

/-- The Huffman code h2 encodes with (`ENCODE_TABLE`, regenerated from the source on every run)
    is the code of RFC 7541 Appendix B (independent copy), all 257 rows. -/
theorem huffman_tables_are_rfc :
    Generated.Huffman.encL = Spec.Rfc7541.huffmanCode := by decide +kernel

/-- `get_static` (regenerated from the source) is the static table of RFC 7541 Appendix A. -/
theorem static_table_is_rfc :
    Generated.Static.staticL = Spec.Rfc7541.staticTable := by decide +kernel

end H2V.Props.C11
