import H2V.Lemmas.ConnCtlPHist
import H2V.Lemmas.ConnCtlPPing
/-
  C14 — SETTINGS and PING are acknowledged exactly once, in order; settings apply at the ACK.
  Property theorems only (lemmas: `H2V/Lemmas/ConnCtlP*.lean`, notes: `H2V/Lemmas/ConnCtlPNOTES.md`).

  Vocabulary.  `Ev` are ghost events of `Connection::poll`: `protoPollT` / `clientPollT` are the
  model's `Conn.protoPoll` / `Conn.clientPoll` plus the list of events, emitted at the very calls
  that take a frame from the peer (`rxSettings`, `rxPing`) or hand an acknowledgement to the codec
  (`ackSettings`, `pong`); `protoPollT_erasure` / `clientPollT_erasure` below say that they compute
  exactly the model's values.  `Hist c0 evs c`: the connection got from `c0` to `c` by any
  interleaving of polls (any waker, any fuel = any amount of input, any write budget — the transport
  is part of the state) and user-side calls, emitting `evs`.  `rxS/ackS/rxP/pongP/ansP` project the
  event list onto the SETTINGS received / acknowledged, PING payloads received / echoed / taken
  out of `pending_pong`.
-/
set_option autoImplicit false
namespace H2V.Props.C14
open H2V H2V.Model H2V.Model.Conn H2V.Lemmas.ConnCtlP

/-- the instrumented polls ARE the model's polls (first component), for every state and fuel -/
theorem protoPollT_erasure (fuel : Nat) (c : Conn) : (protoPollT fuel c).1 = Conn.protoPoll fuel c :=
  protoPollT_fst fuel c
theorem clientPollT_erasure (fuel : Nat) (c : Conn) : (clientPollT fuel c).1 = Conn.clientPoll fuel c :=
  clientPollT_fst fuel c

/-- a concrete client connection whose transport holds SETTINGS(empty), PING(1..8),
    SETTINGS(MAX_CONCURRENT_STREAMS=5) — used by the non-vacuity examples -/
def demoPeer : Bytes :=
  [0,0,0,4,0,0,0,0,0] ++ [0,0,8,6,0,0,0,0,0, 1,2,3,4,5,6,7,8] ++ [0,0,6,4,0,0,0,0,0, 0,3,0,0,0,5]
def demo (budget : Option Nat) : Conn :=
  let c0 := Conn.init {}
  { c0 with codec := { c0.codec with io := { c0.codec.io with rd := demoPeer, budget := budget } } }

/-- **SETTINGS are acknowledged exactly once, in arrival order, never more** — over EVERY history of
    a connection that starts with nothing owed: the SETTINGS frames acknowledged so far are a prefix
    of the SETTINGS frames received so far (same frames, same order: each ACK answers "its" frame and
    there is never an ACK without a frame), at most one received frame is not yet acknowledged, and
    while the connection is alive (has not started its final GOAWAY / left the `Open` state) the
    only unacknowledged one is the frame sitting in `settings.remote` — this includes every write
    back-pressure pattern, since the transport's budget is part of the state. -/
theorem settings_acked_exactly_once_in_order {c0 c : Conn} {evs : List Ev} (h : Hist c0 evs c)
    (h0 : c0.settings.remote = none) :
    ackS evs <+: rxS evs ∧ (rxS evs).length ≤ (ackS evs).length + 1 ∧
    (¬ Dead c → ackS evs ++ owedS c = rxS evs) :=
  hist_settings h h0

/-- non-vacuity: one poll of the demo connection receives two SETTINGS and acknowledges both, in order -/
example : ∃ evs c, Hist (demo none) evs c ∧ (demo none).settings.remote = none ∧
    rxS evs = [[], [(3, 5)]] ∧ ackS evs = [[], [(3, 5)]] :=
  ⟨_, _, Hist.clientPoll "c" 20 Hist.init, by decide, by decide, by decide⟩
/-- the demo connection with a full write buffer and a transport that accepts nothing -/
def demoFull : Conn :=
  let c0 := demo (some 0)
  { c0 with codec := { c0.codec with w := { c0.codec.w with
      buf := c0.codec.w.buf ++ [{ bytes := 16000, done := none }], bufLen := c0.codec.w.bufLen + 16000 } } }
/-- lift the write budget (the harness's `cn_budget inf`): an inert call -/
def unblock (c : Conn) : Conn := { c with codec := { c.codec with io := { c.codec.io with budget := none } } }
theorem unblock_inert (c : Conn) : Inert c (unblock c) := inert_streams_codec c c.streams _ c.cx c.unsupported

/-- … under write back-pressure the first SETTINGS is received but stays owed: no ACK, no further
    read, the connection alive; once the transport takes octets again the ACK goes out, then the
    PING and the second SETTINGS are read and answered — same ledger -/
example : ∃ evs c, Hist demoFull evs c ∧ rxS evs = [[]] ∧ ackS evs = [] ∧ owedS c = [[]] ∧ ¬ Dead c := by
  refine ⟨_, _, Hist.clientPoll "c" 20 Hist.init, by decide, by decide, by decide, ?_⟩
  unfold Dead Halting; decide
example : ∃ evs c, Hist demoFull evs c ∧ rxS evs = [[], [(3, 5)]] ∧ ackS evs = [[], [(3, 5)]] ∧ owedS c = [] :=
  ⟨_, _, Hist.clientPoll "c" 20 (Hist.call _ (Hist.clientPoll "c" 20 Hist.init) (unblock_inert _)),
    by decide, by decide, by decide⟩

/-- **PINGs are answered exactly once, in arrival order, with their own payload** — over every
    history: the payloads taken out of `pending_pong` followed by the one still pending are exactly
    the payloads received, in order; at most one is pending; and every payload taken out was echoed
    in a PING ACK unless the transport answered an I/O error at that very moment (`pongLost`). -/
theorem pings_answered_exactly_once_in_order {c0 c : Conn} {evs : List Ev} (h : Hist c0 evs c)
    (h0 : c0.pingPong.pendingPong = none) :
    ansP evs ++ owedP c = rxP evs ∧ (rxP evs).length ≤ (ansP evs).length + 1 ∧
    ((∀ p, Ev.pongLost p ∉ evs) → pongP evs = ansP evs) :=
  hist_pings h h0

example : ∃ evs c, Hist (demo none) evs c ∧ (demo none).pingPong.pendingPong = none ∧
    rxP evs = [[1,2,3,4,5,6,7,8]] ∧ pongP evs = [[1,2,3,4,5,6,7,8]] :=
  ⟨_, _, Hist.clientPoll "c" 20 Hist.init, by decide, by decide, by decide⟩

/-- **the next frame is read only when nothing is owed**: `Connection::poll_ready` answers
    `Ready(Ok)` only with `settings.remote` and `ping_pong.pending_pong` empty — so the
    `assert!(self.remote.is_none())` / `assert!(self.pending_pong.is_none())` of `recv_settings` /
    `recv_ping`, which `poll2` reaches only after `poll_ready`, cannot fire, and a second SETTINGS
    or PING never overwrites an unanswered one. -/
theorem read_gated_by_poll_ready (c c' : Conn) (h : c.pollReady = (c', .ok)) :
    c'.settings.remote = none ∧ c'.pingPong.pendingPong = none := by
  have := (pollReadyT_spec c).2
  rw [pollReadyT_fst, h] at this
  exact this rfl

example : stepOk (demo none).pollReady.2 = true := by decide

/-- **a received SETTINGS frame is only remembered**: until its ACK is written nothing is applied and
    nothing is sent — `recv_settings` changes `settings.remote` and nothing else. -/
theorem received_settings_only_remembered (c : Conn) (vals : List (Nat × Nat)) (h : c.settings.remote = none) :
    c.recvSettings false vals = ({ c with settings := { c.settings with remote := some vals } }, .ok ()) :=
  recvSettings_nonack c vals h

example : (demo none).settings.remote = none := by decide

/-- the model's `Settings::poll_send` is literally: the remote half (ACK + apply, `ackAndApply`, when
    a frame is owed and the codec has room), then the local half -/
theorem poll_send_structure (c : Conn) :
    c.settingsPollSend = (match settingsRemotePart c with
      | (c, .ok) => settingsLocalPart c
      | r => r) ∧
    (∀ vals c1, c.settings.remote = some vals → c.codecPollReady = (c1, .ok) →
      settingsRemotePart c = ackAndApply c1 vals) := by
  refine ⟨settingsPollSend_eq c, fun vals c1 h1 h2 => ?_⟩
  unfold settingsRemotePart
  rw [h1]; dsimp only; rw [h2]

/-- **the peer's values govern what is sent from the ACK on**: the step that hands the SETTINGS ACK
    to the codec (exactly one 9-octet frame appended to the write buffer) is the step that applies
    the values of the frame it answers: the streams afterwards are `apply_remote_settings(values)`
    of the streams before (concurrency limit, initial window with the deltas on all streams, push
    switch), and on success the writer's max frame size and the HPACK encoder's table size are the
    frame's (unchanged when the frame does not carry them). -/
theorem settings_apply_at_the_ack (c : Conn) (vals : List (Nat × Nat)) :
    (ackAndApply c vals).1.codec.w.buf = c.codec.w.buf ++ [{ bytes := 9, done := some "S:0:1:-" }] ∧
    (ackAndApply c vals).1.streams =
      (c.streams.applyRemoteSettings vals (!c.settings.hasReceivedRemoteInitialSettings)).1 ∧
    (ackAndApply c vals).1.settings.hasReceivedRemoteInitialSettings = true ∧
    ((ackAndApply c vals).2 = .ok →
      (ackAndApply c vals).1.codec.w.maxFrameSize = (getS vals 5).getD c.codec.w.maxFrameSize ∧
      (ackAndApply c vals).1.codec.w.hpack =
        (match getS vals 1 with | some v => c.codec.w.hpack.updateMaxSize v | none => c.codec.w.hpack)) ∧
    (stepOk (ackAndApply c vals).2 = true ↔
      ∃ u, (c.streams.applyRemoteSettings vals (!c.settings.hasReceivedRemoteInitialSettings)).2 = .ok u) :=
  ackAndApply_spec c vals

/-- … and not before: while the codec cannot take the ACK (write back-pressure), `poll_send`
    changes neither the streams nor the writer's frame-size limit, and keeps the frame owed. -/
theorem settings_not_applied_under_backpressure (c : Conn) (vals : List (Nat × Nat))
    (hr : c.settings.remote = some vals) (hb : stepOk c.codecPollReady.2 = false) :
    (settingsRemotePart c).1.streams = c.streams ∧ (settingsRemotePart c).1.settings = c.settings ∧
    (settingsRemotePart c).1.codec.w.maxFrameSize = c.codec.w.maxFrameSize ∧
    stepOk (settingsRemotePart c).2 = false :=
  settingsRemotePart_backpressure c vals hr hb

/-- **locally changed settings are not enforced when they are queued or sent**: `send_settings`
    changes neither streams nor codec, and writing the frame (`ToSend → WaitingAck`) leaves the
    streams and the reader (max frame size, header list size, HPACK decoder) untouched. -/
theorem local_settings_deferred (c : Conn) (vals : List (Nat × Nat)) :
    (c.sendSettings vals).1.streams = c.streams ∧ (c.sendSettings vals).1.codec = c.codec ∧
    (settingsLocalSend c).1.streams = c.streams ∧ (settingsLocalSend c).1.codec.r = c.codec.r :=
  ⟨(sendSettings_defers c vals).1, (sendSettings_defers c vals).2.1,
   (settingsLocalSend_defers c).1, (settingsLocalSend_defers c).2.1⟩

/-- **… they are enforced when the peer's ACK arrives**: with a local SETTINGS `loc` waiting for
    its ACK, `recv_settings(ACK)` sets the reader's max frame size / max header list size to the
    values sent, runs `apply_local_settings(loc)` on the streams (initial window of every stream),
    and returns to `Synced`; the writer is untouched. -/
theorem local_settings_enforced_at_peer_ack (c : Conn) (vals loc : List (Nat × Nat))
    (h : c.settings.loc = .waitingAck loc) :
    (c.recvSettings true vals).1.codec.r.maxFrameLen = (getS loc 5).getD c.codec.r.maxFrameLen ∧
    (c.recvSettings true vals).1.codec.r.maxHeaderListSize = (getS loc 6).getD c.codec.r.maxHeaderListSize ∧
    (c.recvSettings true vals).1.streams = (c.streams.applyLocalSettingsFrame loc).1 ∧
    (c.recvSettings true vals).1.codec.w = c.codec.w ∧
    ((c.recvSettings true vals).2 = .ok () → (c.recvSettings true vals).1.settings.loc = .synced) ∧
    (c.recvSettings true vals).1.settings.remote = c.settings.remote :=
  recvSettings_ack_applies c vals loc h

/-- non-vacuity: a fresh client is waiting for the ACK of its handshake SETTINGS -/
example : (Conn.init { mfs := some 20000 }).settings.loc = .waitingAck [(5, 20000)] := by decide

/-- **an acknowledgement that answers nothing is a connection error**: a SETTINGS ACK while no
    local SETTINGS waits for one makes `recv_settings` fail with the library GOAWAY error
    PROTOCOL_ERROR, without touching the state (what the connection does with such an error —
    GOAWAY(PROTOCOL_ERROR), no further reads — is `C09.connection_error_is_fatal`). -/
theorem unsolicited_settings_ack_is_protocol_error (c : Conn) (vals : List (Nat × Nat))
    (h : ∀ l, c.settings.loc ≠ .waitingAck l) :
    c.recvSettings true vals = (c, .error (PErr.libraryGoAway PROTOCOL_ERROR)) :=
  recvSettings_ack_unsolicited c vals h

example : ∀ l, ({ (Conn.init {}) with settings := { loc := .synced } } : Conn).settings.loc ≠ .waitingAck l := by
  intro l h; cases h

/-- **the PING ACK echoes the payload received**: with the codec ready `send_pending_pong` appends
    exactly one 17-octet PING ACK frame carrying the payload stored by `recv_ping` and empties the
    slot; with the codec not ready (back-pressure) the payload stays pending. -/
theorem pong_echoes_payload (c : Conn) (payload : Bytes) (h : c.pingPong.pendingPong = some payload) :
    (c.codecPollReady.2 = .ok →
      c.sendPendingPong.2 = .ok ∧ c.sendPendingPong.1.pingPong.pendingPong = none ∧
      c.sendPendingPong.1.codec.w.buf = c.codecPollReady.1.codec.w.buf ++
        [{ bytes := 17, done := some ("P:0:1:" ++ Hex.ofBytes payload) }]) ∧
    (c.codecPollReady.2 = .pending →
      c.sendPendingPong.2 = .pending ∧ c.sendPendingPong.1.pingPong.pendingPong = some payload) :=
  sendPendingPong_spec c payload h

example : stepOk ({ (demo none) with pingPong := { pendingPong := some [9,9,9,9,9,9,9,9] } } : Conn).codecPollReady.2 = true := by
  decide

/-- **a PING ACK nobody asked for is ignored**: it matches neither the shutdown ping nor a user ping
    in flight ⇒ `recv_frame` swallows it, no error, no state change (but an empty wake-up list). -/
theorem unsolicited_ping_ack_ignored (c : Conn) (payload : Bytes)
    (hp : c.pingPong.pendingPong = none)
    (h1 : ∀ pp, c.pingPong.pendingPing = some pp → pp.payload ≠ payload)
    (h2 : ∀ u, c.pingPong.userPings = some u →
      ¬ (payload = Generated.Consts.PING_USER_PAYLOAD ∧ u.state = Generated.Consts.USER_STATE_PENDING_PONG)) :
    c.recvFrame (some (.ping true payload)) = ({ c with streams := c.streams.wake [] }, .ok .continue) :=
  recvFrame_ping_ack_unsolicited c payload hp h1 h2

example : (demo none).pingPong.pendingPong = none ∧ (demo none).pingPong.pendingPing = none ∧
    (demo none).pingPong.userPings = none := by decide

/-- **the ACK of a user ping is delivered to the user**: PING ACK with the user payload while the
    user's ping is in flight ⇒ the pong is recorded (`poll_pong` will answer `Ready`) and the task
    registered by `poll_pong` is woken. -/
theorem user_ping_ack_delivered (p : PingPong) (u : UserPings) (hu : p.userPings = some u)
    (hs : u.state = Generated.Consts.USER_STATE_PENDING_PONG)
    (h1 : ∀ pp, p.pendingPing = some pp → pp.payload ≠ Generated.Consts.PING_USER_PAYLOAD) :
    p.recvPing true Generated.Consts.PING_USER_PAYLOAD =
      ({ p with userPings := some { u with state := Generated.Consts.USER_STATE_RECEIVED_PONG, pongTask := none } },
       .unknown, u.pongTask.toList, p.pendingPong.isNone) :=
  recvPing_ack_user p u hu hs h1

example : ∃ (p : PingPong) (u : UserPings), p.userPings = some u ∧
    u.state = Generated.Consts.USER_STATE_PENDING_PONG ∧ p.pendingPing = none :=
  ⟨{ userPings := some { state := Generated.Consts.USER_STATE_PENDING_PONG } }, _, rfl, rfl, rfl⟩

-- ===================================================================== witnesses for the two hypotheses the ledgers carry

/-- the demo client after its SETTINGS exchange -/
def demoSynced : Conn :=
  let c0 := Conn.init {}
  (Conn.clientPoll 50 { c0 with codec := { c0.codec with io := { c0.codec.io with rd := [0,0,0,4,0,0,0,0,0] } } }).1

/-- … holding (set by hand: sending a request needs `http` string constants the kernel cannot
    evaluate) an open stream 1 whose send window the peer has raised to 2^31-1, and a SETTINGS frame
    that raises INITIAL_WINDOW_SIZE by one — legal, and unanswerable without overflow -/
def demoOverflow : Conn :=
  let st := Stream.new 1 65535 65535
  let fl : FlowControl := { windowSize := { val := 2147483647 }, available := { val := 0 } }
  let big : Stream := { st with state := { inner := .open .streaming .awaitingHeaders }, sendFlow := fl, isCounted := true, refCount := 1 }
  let s := demoSynced.streams
  let cnt : Counts := { s.counts with numSendStreams := 1 }
  let s' : Streams := { s with store := (s.store.insert big).1, counts := cnt }
  let io : Tio := { demoSynced.codec.io with rd := [0,0,6,4,0,0,0,0,0, 0,4,0,1,0,0], tx := [] }
  { demoSynced with streams := s', codec := { demoSynced.codec with io := io } }

/-- **why `ackS ++ owed = rxS` is stated for live connections only**: when `apply_remote_settings`
    fails (here: the new initial window overflows a stream's send window — connection error
    FLOW_CONTROL_ERROR) the ACK has already been handed to the codec and `settings.remote` is NOT
    cleared: one frame received, one ACK sent, and the same frame still "owed".  No second ACK can
    follow: the connection is dead (GOAWAY(FLOW_CONTROL_ERROR) sent, state `Closed`), which is why the
    prefix statement of `settings_acked_exactly_once_in_order` holds unconditionally. -/
theorem stale_remote_after_failed_apply_counterexample :
    rxS (clientPollT 50 demoOverflow).2 = [[(4, 65536)]] ∧ ackS (clientPollT 50 demoOverflow).2 = [[(4, 65536)]] ∧
    owedS (clientPollT 50 demoOverflow).1.1 = [[(4, 65536)]] ∧
    (sentG (clientPollT 50 demoOverflow).2).map (·.reason) = [FLOW_CONTROL_ERROR] ∧
    (clientPollT 50 demoOverflow).1.1.state = .closed FLOW_CONTROL_ERROR .library := by decide

/-- the demo client with a PING to answer, a full write buffer and a transport whose writes fail -/
def demoBrokenPipe : Conn :=
  let io : Tio := { demoSynced.codec.io with rd := [0,0,8,6,0,0,0,0,0, 1,2,3,4,5,6,7,8], wrErr := some "BrokenPipe" }
  let w0 := demoSynced.codec.w
  let w : Writer := { w0 with buf := w0.buf ++ [{ bytes := 16000, done := none }], bufLen := w0.bufLen + 16000 }
  { demoSynced with codec := { demoSynced.codec with io := io, w := w } }

/-- **why `pongP = ansP` needs "no `pongLost`"**: `send_pending_pong` takes the payload out of
    `pending_pong` before `poll_ready?`; when the transport answers an I/O error at that moment the
    PING is never answered and no longer pending (the error is returned by `poll`: the connection is
    dying anyway). -/
theorem pong_lost_on_write_error_counterexample :
    (clientPollT 50 demoBrokenPipe).2 = [.rxPing [1,2,3,4,5,6,7,8], .pongLost [1,2,3,4,5,6,7,8]] ∧
    pongP (clientPollT 50 demoBrokenPipe).2 = [] ∧ (clientPollT 50 demoBrokenPipe).1.1.pingPong.pendingPong = none := by
  decide

end H2V.Props.C14

#print axioms H2V.Props.C14.protoPollT_erasure
#print axioms H2V.Props.C14.clientPollT_erasure
#print axioms H2V.Props.C14.settings_acked_exactly_once_in_order
#print axioms H2V.Props.C14.pings_answered_exactly_once_in_order
#print axioms H2V.Props.C14.read_gated_by_poll_ready
#print axioms H2V.Props.C14.received_settings_only_remembered
#print axioms H2V.Props.C14.poll_send_structure
#print axioms H2V.Props.C14.settings_apply_at_the_ack
#print axioms H2V.Props.C14.settings_not_applied_under_backpressure
#print axioms H2V.Props.C14.local_settings_deferred
#print axioms H2V.Props.C14.local_settings_enforced_at_peer_ack
#print axioms H2V.Props.C14.unsolicited_settings_ack_is_protocol_error
#print axioms H2V.Props.C14.pong_echoes_payload
#print axioms H2V.Props.C14.unsolicited_ping_ack_ignored
#print axioms H2V.Props.C14.user_ping_ack_delivered
#print axioms H2V.Props.C14.stale_remote_after_failed_apply_counterexample
#print axioms H2V.Props.C14.pong_lost_on_write_error_counterexample
