import H2V.Model.PingAtomics
import H2V.Generated.Locks
import H2V.Generated.LockScopes
/-
  C20 — handles may be used from any thread concurrently with the connection.
  Property theorems only.  (Part: the lock-free user-ping hand-shake; the mutex-protected part is
  covered by the section-granularity theorems of the connection model.)
-/
namespace H2V.Props.C20
open H2V.Model.PingAtomics H2V.Generated.Orders

/-- **No user ping is lost, under every interleaving.** With the step order that
    `send_pending_ping` and `send_ping` have in the source (read by the translator on every run),
    for every interleaving of one pass of the connection task through `send_pending_ping` with one
    concurrent `UserPings::send_ping`, from every start state (connection waker registered or not):
    if a ping is left requested then the connection task has been woken. -/
theorem ping_never_lost : pingAllOk pingRegisterBeforeLoad sendPingCasBeforeWake = true := by decide

/-- **No pong is lost, under every interleaving** of `receive_pong` (connection task) with a
    concurrent `poll_pong` (user task): a pong left unconsumed implies the user task was woken. -/
theorem pong_never_lost : pongAllOk pongRegisterBeforeCas receivePongCasBeforeWake = true := by decide

/-- the order is what matters: loading the state before registering the waker (the code before the
    fix of `send_pending_ping`) loses a ping in some interleaving -/
theorem ping_lost_if_load_before_register : pingAllOk false true = false := by decide

/-- waking before the compare-exchange would lose a pong -/
theorem pong_lost_if_wake_before_cas : pongAllOk true false = false := by decide

/-- a function never takes the `SendBuffer` mutex and then the streams `Inner` mutex -/
def innerAfterBuffer : List Nat → Bool
  | [] => false
  | 1 :: rest => rest.contains 0 || innerAfterBuffer rest
  | _ :: rest => innerAfterBuffer rest

/-- **Lock order is acyclic**: in every function of `proto/streams/streams.rs` (acquisition
    sequences regenerated from the source on every run) the streams mutex is taken before the send
    buffer mutex, never the other way round — two handles on two threads cannot deadlock on them. -/
theorem lock_order_acyclic :
    H2V.Generated.Locks.lockSeqs.all (fun p => !innerAfterBuffer p.2) = true := by decide

/-- is a transport-progress call (2) ever made while a streams-lock guard (0 … 1) is alive? -/
def noTransportWhileLocked : Nat → List Nat → Bool
  | _, [] => true
  | held, 0 :: r => noTransportWhileLocked (held + 1) r
  | held, 1 :: r => noTransportWhileLocked (held - 1) r
  | held, 2 :: r => held == 0 && noTransportWhileLocked held r
  | held, _ :: r => noTransportWhileLocked held r

/-- **The connection task never lets the transport make progress while it holds the streams lock**: in
    every function of `proto/streams/streams.rs` that both takes the lock and calls `dst.poll_ready` /
    `dst.flush` / `dst.shutdown` (guard scopes and calls regenerated from the source on every run),
    no such call lies inside the scope of a lock guard.  A handle used on another thread therefore
    never has to wait for a transport write — and a write whose completion depends on that thread
    cannot deadlock with it. -/
theorem no_transport_progress_under_streams_lock :
    H2V.Generated.LockScopes.events.all (fun f => noTransportWhileLocked 0 f.2) = true := by decide

example : noTransportWhileLocked 0 [0, 2, 1] = false := by decide   -- what the theorem rules out

/-- is the first lock guard (0) of a function created only after the message's extensions were cleared (3)? -/
def clearedBeforeLock : List Nat → Bool
  | [] => true
  | 3 :: _ => true
  | 0 :: _ => false
  | _ :: r => clearedBeforeLock r

/-- **No destructor of the application runs under the streams lock**: every function of
    `proto/streams/streams.rs` that is handed a request or response by value and takes the lock clears the
    message's extensions BEFORE it creates its first guard (events regenerated from the source on every run).
    An extension may be the last owner of a handle of this very connection; its `Drop` takes the same lock —
    under the lock that is a self-deadlock of the calling thread, and with it of every other handle. -/
theorem user_extensions_dropped_before_the_lock :
    H2V.Generated.LockScopes.userMessageFns.all (fun f => clearedBeforeLock f.2) = true := by decide

example : clearedBeforeLock [0, 3] = false := by decide   -- what the theorem rules out
example : H2V.Generated.LockScopes.userMessageFns.length ≥ 3 := by decide

end H2V.Props.C20
