import H2V.Lemmas.ConnCtlPViolConn
import H2V.Lemmas.ConnCtlPViolStreams
import H2V.Lemmas.ConnCtlPPing
import H2V.Lemmas.ConnCtlPGoAwayAll
import H2V.Lemmas.ConnCtlPViolFlow
/-
  C09 — protocol violations are detected and contained; legal traffic is never penalised.
  Property theorems only (lemmas: `H2V/Lemmas/ConnCtlP*.lean`, notes: `H2V/Lemmas/ConnCtlPNOTES.md`).

  The chain for a violation of the CONNECTION class is proven link by link:
    `decode_frame` answers an error (`framing_violations`, `settings_value_violations`)
      → `poll_next` yields it (`decode_error_reaches_poll`) → `poll2` ends with it;
    or `recv_frame` answers an error (`stream_layer_connection_errors`) → `poll2` ends with it;
    then `handle_poll2_result` (`connection_error_is_fatal`): every stream failed, GOAWAY with the
    code queued, the connection dead — it reads and acknowledges nothing any more (`C15`).
  STREAM class: `stream_errors_are_contained`.  TOLERATED: `tolerated_*`.
  `hd bytes` / `pl bytes` are the 9-octet head (`Head::parse`) and the payload of a complete frame.
-/
set_option autoImplicit false
namespace H2V.Props.C09
open H2V H2V.Model H2V.Model.Conn H2V.Model.Frame H2V.Lemmas.ConnCtlP
open H2V.Model.CodecRead (Reader decodeFrame connErr RErr)

/-- **framing violations (RFC 9113 §4.2, §6.1–6.10) are connection errors PROTOCOL_ERROR**, for
    every reader state outside a header block: DATA / HEADERS / PRIORITY / PUSH_PROMISE on stream 0;
    SETTINGS / PING / GOAWAY on a non-zero stream; a stray CONTINUATION; PING ≠ 8 octets,
    RST_STREAM ≠ 4, WINDOW_UPDATE ≠ 4, PRIORITY ≠ 5, GOAWAY < 8, SETTINGS not a multiple of 6,
    SETTINGS ACK with a payload; WINDOW_UPDATE with increment 0 (on the connection or on a stream);
    DATA with more padding than payload; and, inside a header block, any frame that is not a
    CONTINUATION.  `decode_frame` answers `connErr` and leaves the reader as it was. -/
theorem framing_violations (r : Reader) (bytes : Bytes) (hp : r.partialBlk = none) :
    ((hd bytes).kind = 0 → (hd bytes).sid = 0 → decodeFrame r bytes = (r, connErr)) ∧
    ((hd bytes).kind = 1 → (hd bytes).sid = 0 → decodeFrame r bytes = (r, connErr)) ∧
    ((hd bytes).kind = 2 → (hd bytes).sid = 0 → decodeFrame r bytes = (r, connErr)) ∧
    ((hd bytes).kind = 5 → (hd bytes).sid = 0 → decodeFrame r bytes = (r, connErr)) ∧
    ((hd bytes).kind = 4 → (hd bytes).sid ≠ 0 → decodeFrame r bytes = (r, connErr)) ∧
    ((hd bytes).kind = 6 → (hd bytes).sid ≠ 0 → decodeFrame r bytes = (r, connErr)) ∧
    ((hd bytes).kind = 7 → (hd bytes).sid ≠ 0 → decodeFrame r bytes = (r, connErr)) ∧
    ((hd bytes).kind = 9 → decodeFrame r bytes = (r, connErr)) ∧
    ((hd bytes).kind = 6 → (pl bytes).length ≠ 8 → decodeFrame r bytes = (r, connErr)) ∧
    ((hd bytes).kind = 3 → (pl bytes).length ≠ 4 → decodeFrame r bytes = (r, connErr)) ∧
    ((hd bytes).kind = 8 → (pl bytes).length ≠ 4 → decodeFrame r bytes = (r, connErr)) ∧
    ((hd bytes).kind = 2 → (pl bytes).length ≠ 5 → decodeFrame r bytes = (r, connErr)) ∧
    ((hd bytes).kind = 7 → (pl bytes).length < 8 → decodeFrame r bytes = (r, connErr)) ∧
    ((hd bytes).kind = 4 → (hd bytes).flag &&& 1 ≠ 1 → (pl bytes).length % 6 ≠ 0 → decodeFrame r bytes = (r, connErr)) ∧
    ((hd bytes).kind = 4 → (hd bytes).flag &&& 1 = 1 → pl bytes ≠ [] → decodeFrame r bytes = (r, connErr)) ∧
    ((hd bytes).kind = 8 → rd32 (pl bytes) % 2147483648 = 0 → decodeFrame r bytes = (r, connErr)) ∧
    ((hd bytes).kind = 0 → (hd bytes).flag &&& 9 &&& 8 = 8 → (pl bytes).headD 0 ≥ (pl bytes).length →
      decodeFrame r bytes = (r, connErr)) :=
  ⟨decode_data_stream0 r bytes hp, decode_headers_stream0 r bytes hp, decode_priority_stream0 r bytes hp,
   decode_pushPromise_stream0 r bytes hp, decode_settings_on_stream r bytes hp, decode_ping_on_stream r bytes hp,
   decode_goAway_on_stream r bytes hp, decode_continuation_stray r bytes hp, decode_ping_bad_length r bytes hp,
   decode_reset_bad_length r bytes hp, decode_windowUpdate_bad_length r bytes hp, decode_priority_bad_length r bytes hp,
   decode_goAway_short r bytes hp, decode_settings_bad_length r bytes hp, decode_settings_ack_payload r bytes hp,
   decode_windowUpdate_zero r bytes hp, decode_data_too_much_padding r bytes hp⟩

/-- non-vacuity: the injected frames of the harness catalogue (`inject_c09`) meet the hypotheses,
    e.g. PING on stream 1, WINDOW_UPDATE(0) on the connection, SETTINGS of 5 octets -/
example : (hd [0,0,8,6,0,0,0,0,1, 0,0,0,0,0,0,0,0]).kind = 6 ∧ (hd [0,0,8,6,0,0,0,0,1, 0,0,0,0,0,0,0,0]).sid ≠ 0 := by decide
example : (hd [0,0,4,8,0,0,0,0,0, 0,0,0,0]).kind = 8 ∧ rd32 (pl [0,0,4,8,0,0,0,0,0, 0,0,0,0]) % 2147483648 = 0 := by decide
example : (hd [0,0,5,4,0,0,0,0,0, 0,0,0,0,0]).kind = 4 ∧ (pl [0,0,5,4,0,0,0,0,0, 0,0,0,0,0]).length % 6 ≠ 0 := by decide
example : (Reader.new 16384).partialBlk = none := by decide

/-- inside a header block every frame but CONTINUATION — and a CONTINUATION of another stream — is
    a connection error (§6.10) -/
theorem header_block_interleaving (r : Reader) (bytes : Bytes) :
    (r.partialBlk.isSome = true → (hd bytes).kind ≠ 9 → decodeFrame r bytes = (r, connErr)) ∧
    (∀ p, r.partialBlk = some p → (hd bytes).kind = 9 → p.frame.sid ≠ (hd bytes).sid →
      decodeFrame r bytes = ({ r with partialBlk := none }, connErr)) :=
  ⟨decode_interleaved r bytes, fun p => decode_continuation_wrong_stream r bytes p⟩

/-- **a SETTINGS frame carrying a value RFC 9113 §6.5.2 forbids — ENABLE_PUSH or
    ENABLE_CONNECT_PROTOCOL above 1, INITIAL_WINDOW_SIZE above 2^31-1, MAX_FRAME_SIZE outside
    [2^14, 2^24-1] — at ANY position `n` of the frame is a connection error** -/
theorem settings_value_violations (r : Reader) (bytes : Bytes) (n : Nat) (hp : r.partialBlk = none)
    (hk : (hd bytes).kind = 4) (ha : (hd bytes).flag &&& 1 ≠ 1) (hl : 6 * n + 6 ≤ (pl bytes).length)
    (hi : InvalidSetting (rd16 ((pl bytes).drop (6 * n))) (rd32 ((pl bytes).drop (6 * n + 2)))) :
    decodeFrame r bytes = (r, connErr) :=
  decode_settings_invalid_value r bytes n hp hk ha hl hi

/-- non-vacuity: ENABLE_PUSH = 2 as the first entry; MAX_FRAME_SIZE = 2^14 - 1 as the second -/
example : InvalidSetting (rd16 ((pl [0,0,6,4,0,0,0,0,0, 0,2,0,0,0,2]).drop 0)) (rd32 ((pl [0,0,6,4,0,0,0,0,0, 0,2,0,0,0,2]).drop 2)) := by
  unfold InvalidSetting; decide
example : InvalidSetting (rd16 ((pl [0,0,12,4,0,0,0,0,0, 0,3,0,0,0,9, 0,5,0,0,0x3f,0xff]).drop 6))
    (rd32 ((pl [0,0,12,4,0,0,0,0,0, 0,3,0,0,0,9, 0,5,0,0,0x3f,0xff]).drop 8)) := by
  unfold InvalidSetting; decide

/-- **from `decode_frame` to `Connection::poll2`**: when the unread input (reassembly buffer followed
    by what the transport holds) starts with one complete frame, within the advertised frame size,
    on which `decode_frame` fails with `e`, then `poll_next` yields `e`, and the turn of `poll2` that
    reads it ends with `Ready(Err(e))` — nothing of the frame reaches the stream layer or the
    application. -/
theorem decode_error_reaches_poll (c : Conn) (k : Conn → Conn × PollRes) (frameBytes rest : Bytes)
    (e : RErr) (r2 : Reader)
    (hne : c.codec.hasErrored = false) (hneed : c.codec.r.need = none)
    (hbuf : c.codec.r.buf ++ c.codec.io.rd = frameBytes ++ rest)
    (hlen : frameBytes.length = rd24 frameBytes + 9) (hmax : rd24 frameBytes ≤ c.codec.r.maxFrameLen)
    (hdec : decodeFrame { c.codec.r with buf := rest, need := none } frameBytes = (r2, .err e)) :
    (poll2Read k c).2 = .ready (.error (Conn.rerrToPErr e)) := by
  apply poll2Read_codec_error
  have : c.codec.r.buf.length + c.codec.io.rd.length + 2 = (c.codec.r.buf.length + c.codec.io.rd.length + 1) + 1 := rfl
  rw [this]
  exact pollNext_frame_error c.codec c.cx _ frameBytes rest e r2 hne hneed hbuf hlen hmax hdec

/-- a codec error of the GOAWAY class is the library connection error with the same code
    (`connErr` = PROTOCOL_ERROR; the oversize check of `C12.rx_oversize_rejected` = FRAME_SIZE_ERROR) -/
theorem codec_error_code (code : Nat) (dbg : String) :
    Conn.rerrToPErr (.goAway code dbg) = .goAway (Http.str dbg) code .library := rfl

/-- **violations the stream layer detects are connection errors**, answered by `recv_frame` with the
    library GOAWAY error (PROTOCOL_ERROR, FLOW_CONTROL_ERROR for the window) — `poll2` ends with it:
    RST_STREAM on stream 0; RST_STREAM / WINDOW_UPDATE / DATA on an idle stream; a connection
    WINDOW_UPDATE overflowing 2^31-1; any PUSH_PROMISE received by a server; PUSH_PROMISE on an
    unknown stream or promising an odd id; HEADERS that would open a stream with an id of the wrong
    parity (client using an even id; a server "opening" a stream at a client); HEADERS answering a
    request that has not been sent; DATA on a stream that is not receive-streaming. -/
theorem stream_layer_connection_errors (s : Streams) :
    (∀ r, s.recvReset 0 r = (s, .error (PErr.libraryGoAway PROTOCOL_ERROR))) ∧
    (∀ id r, id ≠ 0 → ¬ id > s.recv.maxStreamId → s.store.findKey? id = none →
      s.ensureNotIdle id = .error PROTOCOL_ERROR → s.recvReset id r = (s, .error (PErr.libraryGoAway PROTOCOL_ERROR))) ∧
    (∀ id inc, id ≠ 0 → s.store.findKey? id = none → s.ensureNotIdle id = .error PROTOCOL_ERROR →
      s.recvWindowUpdate id inc = (s, .error (PErr.libraryGoAway PROTOCOL_ERROR))) ∧
    (∀ id payload eos pad, s.store.findKey? id = none → ¬ id > s.recv.maxStreamId →
      s.mayHaveForgottenStream id = false →
      s.recvData id payload eos pad = (s, .error (PErr.libraryGoAway PROTOCOL_ERROR))) ∧
    (∀ inc, ¬ (inI32 (s.prio.flow.windowSize.val + u32AsI32 inc) = true ∧
        s.prio.flow.windowSize.val + u32AsI32 inc ≤ (Generated.Consts.MAX_WINDOW_SIZE : Int)) →
      s.recvWindowUpdate 0 inc = (s, .error (PErr.libraryGoAway FLOW_CONTROL_ERROR))) ∧
    (∀ id h, s.counts.isServer = true → s.recvPushPromise id h = (s, .error (PErr.libraryGoAway PROTOCOL_ERROR))) ∧
    (∀ id h, s.counts.isServer = false → s.store.findKey? id = none →
      s.recvPushPromise id h = (s, .error (PErr.libraryGoAway PROTOCOL_ERROR))) ∧
    (∀ id k (h : HeadersIn), s.counts.isServer = false → s.store.findKey? id = some k → ¬ id > s.recv.maxStreamId →
      h.sid % 2 = 1 → (s.recvPushPromise id h).2 = .error (PErr.libraryGoAway PROTOCOL_ERROR)) ∧
    (∀ h : HeadersIn, s.counts.isServer = true → ¬ h.sid > s.recv.maxStreamId → s.store.findKey? h.sid = none →
      h.sid % 2 = 0 → (s.recvHeaders h).2 = .error (PErr.libraryGoAway PROTOCOL_ERROR)) ∧
    (∀ h : HeadersIn, s.counts.isServer = false → ¬ h.sid > s.recv.maxStreamId → s.store.findKey? h.sid = none →
      s.mayHaveForgottenStream h.sid = false → (s.recvHeaders h).2 = .error (PErr.libraryGoAway PROTOCOL_ERROR)) ∧
    (∀ (h : HeadersIn) k, ¬ h.sid > s.recv.maxStreamId → s.store.findKey? h.sid = some k →
      (s.stream k).isPendingOpen = true → s.recvHeaders h = (s, .error (PErr.libraryGoAway PROTOCOL_ERROR))) ∧
    (∀ id k payload eos pad, s.store.findKey? id = some k → (s.stream k).state.isLocalError = false →
      (s.stream k).state.isRecvStreaming = false →
      (s.recvData id payload eos pad).2 = .error (PErr.libraryGoAway PROTOCOL_ERROR)) :=
  ⟨recvReset_stream0 s, fun id r => recvReset_idle s id r, fun id inc => recvWindowUpdate_idle s id inc,
   fun id p e pad => recvData_idle s id p e pad, recvWindowUpdate_conn_overflow s,
   fun id h => recvPushPromise_server s id h, fun id h => recvPushPromise_unknown_parent s id h,
   fun id k h => recvPushPromise_odd_promised s id k h, fun h => recvHeaders_server_even_id s h,
   fun h => recvHeaders_client_opens s h, fun h k => recvHeaders_pending_open s h k,
   fun id k p e pad => recvData_wrong_state s id k p e pad⟩

/-- what "idle" means in the hypotheses above: the id is at or above the next id of its initiator -/
theorem idle_iff (s : Streams) (id : Nat) :
    s.ensureNotIdle id = .error PROTOCOL_ERROR ↔
      (if s.counts.isLocalInit id then ∃ n, s.actions.send.nextStreamId = some n ∧ id ≥ n
       else ∃ n, s.recv.nextStreamId = some n ∧ id ≥ n) :=
  ensureNotIdle_idle_iff s id

/-- non-vacuity on a fresh client: stream 7 is idle (next local id is 1), stream 4 was never promised -/
example : (Conn.init {}).streams.ensureNotIdle 7 = .error PROTOCOL_ERROR ∧
    (Conn.init {}).streams.store.findKey? 7 = none ∧ (Conn.init {}).streams.mayHaveForgottenStream 4 = false := by
  decide

/-- an error of `recv_frame` ends the turn of `poll2` with that error -/
theorem recv_frame_error_ends_poll2 (k : Conn → Conn × PollRes) (c c' : Conn) (frame : Option Frame.Frame) (e : PErr)
    (h : c.recvFrame frame = (c', .error e)) : poll2Dispatch k c frame = (c', .ready (.error e)) :=
  poll2Dispatch_error k c c' frame e h

/-- **a connection error is fatal and answered with GOAWAY** — when `poll2` ends with
    `Error::GoAway(debug, reason, initiator)` (all the errors above), in ANY state satisfying the
    GOAWAY invariant (`C15.goaway_invariant_in_every_reachable_state`: every reachable state),
    `handle_poll2_result` answers `Ok` (the state loop goes on to flush and close) and leaves the
    connection dead — `C15.nothing_processed_after_go_away_now`: it reads no frame and acknowledges
    nothing any more — with the invariant intact.  Either a GOAWAY with this reason had been announced
    before (then the state becomes `Closing(reason)`), or `go_away_now` runs: every stream is failed
    with the error (`Inner::handle_error`), `close_now` is set, `last_processed_id` (unchanged) and
    the reason are announced, and the GOAWAY(last_processed_id, reason, debug) frame is pending —
    unless exactly this GOAWAY was announced already. -/
theorem connection_error_is_fatal (c : Conn) (d : Bytes) (r : Reason) (i : Initiator) (hi : GoAwayInv c) :
    let c' := (c.handlePoll2Result (.error (.goAway d r i))).1
    let lpi := (c.streams.handleError (.goAway d r i)).1.recv.lastProcessedId
    (c.handlePoll2Result (.error (.goAway d r i))).2 = .ok () ∧ Dead c' ∧ GoAwayInv c' ∧
    lpi = c.streams.recv.lastProcessedId ∧
    ((c'.state = .closing r i ∧ (∃ ga, c.goAway.goingAway = some ga ∧ ga.reason = r) ∧ c'.goAway = c.goAway ∧
        c'.streams = c.streams) ∨
     (Halting c' ∧ c'.streams = (c.streams.handleError (.goAway d r i)).1 ∧ c'.state = c.state ∧
      c'.goAway.goingAway = some { lastProcessedId := lpi, reason := r } ∧
      (c'.goAway.pending = some { lastStreamId := lpi, reason := r, debugData := d } ∨
       (c'.goAway.pending = c.goAway.pending ∧
        c.goAway.goingAway = some { lastProcessedId := lpi, reason := r })))) :=
  connection_error_fatal' c d r i hi

/-- non-vacuity: a fresh connection satisfies the invariant; e.g. PROTOCOL_ERROR on it queues
    GOAWAY(0, PROTOCOL_ERROR) -/
example : GoAwayInv (Conn.init {}) := goAwayInv_init {}
example : ((Conn.init {}).handlePoll2Result (.error (.goAway [] PROTOCOL_ERROR .library))).1.goAway.pending =
    some { lastStreamId := 0, reason := PROTOCOL_ERROR, debugData := [] } := by decide

/-- **flow-control overruns (§6.9.1)**: DATA beyond the connection's receive window — on a
    receiving stream or on an unknown one — is the connection error FLOW_CONTROL_ERROR and changes
    nothing; DATA within the connection window but beyond the stream's window is the STREAM error
    FLOW_CONTROL_ERROR (which `stream_errors_are_contained` turns into a reset of that stream). -/
theorem flow_control_overruns (s : Streams) :
    (∀ sz, s.recv.flow.windowSz < sz → s.ignoreData sz = (s, .error (PErr.libraryGoAway FLOW_CONTROL_ERROR))) ∧
    (∀ id k payload eos, s.store.findKey? id = some k → payload.length ≤ Generated.Consts.MAX_WINDOW_SIZE →
      (s.stream k).state.isLocalError = false → (s.stream k).state.isRecvStreaming = true →
      s.recv.flow.windowSz < usizeAsU32 payload.length →
      (s.recvData id payload eos none).2 = .error (PErr.libraryGoAway FLOW_CONTROL_ERROR)) ∧
    (∀ s1 k payload eos flowLen u, (s.stream k).state.isLocalError = false → (s.stream k).state.isRecvStreaming = true →
      s.consumeConnectionWindow (usizeAsU32 flowLen) = (s1, .ok u) →
      (s1.stream k).recvFlow.windowSz < usizeAsU32 flowLen →
      recvDataCore s k payload eos flowLen = (s1, .error (PErr.libraryReset (s1.stream k).id FLOW_CONTROL_ERROR))) ∧
    (∀ id p eos pad, s.recvRecvData id p eos pad =
      recvDataCore (if p.length + (match pad with | some x => x + 1 | none => 0) > Generated.Consts.MAX_WINDOW_SIZE
        then s.panic "assertion failed: sz <= MAX_WINDOW_SIZE" else s) id p eos
        (p.length + (match pad with | some x => x + 1 | none => 0))) :=
  ⟨ignoreData_overrun s, fun id k p e hk hsz h1 h2 h => recvData_conn_overrun s id k p e hk hsz h1 h2 h,
   fun s1 k p e n u h1 h2 hc h => recvDataCore_stream_overrun s s1 k p e n u h1 h2 hc h,
   fun id p e pad => recvRecvData_eq s id p e pad⟩

/-- **stream errors are contained**: a stream-level error (`Error::Reset`) raised while a frame is
    processed is answered in place by `reset_on_recv_stream_err`: the stream is reset through
    `Send::send_reset` (RST_STREAM with the reason), the frame's result is `Ok` — the connection and
    every other stream go on; only when the budget of locally caused resets
    (`max_local_error_reset_streams`, 1024) is exhausted the answer is the connection error
    ENHANCE_YOUR_CALM.  Connection errors and `Ok` pass through unchanged.  Instance: a
    WINDOW_UPDATE overflowing a stream's window is the stream error FLOW_CONTROL_ERROR, handled so. -/
theorem stream_errors_are_contained (s : Streams) (k sid : Nat) (reason : Reason) (init : Initiator) :
    s.resetOnRecvStreamErr k (.error (.reset sid reason init)) =
      (if s.counts.canIncNumLocalErrorResets then
        ((((s.modCountsA "can_inc_num_local_error_resets" Counts.incNumLocalErrorResets).sendSendReset k reason init
            ).enqueueResetExpiration k).modStreamW k Stream.notifyRecv, .ok ())
       else (s, .error (PErr.libraryGoAwayData ENHANCE_YOUR_CALM "too_many_internal_resets"))) ∧
    (∀ d r i, s.resetOnRecvStreamErr k (.error (.goAway d r i)) = (s, .error (.goAway d r i))) ∧
    s.resetOnRecvStreamErr k (.ok ()) = (s, .ok ()) ∧
    (∀ id inc, id ≠ 0 → s.store.findKey? id = some k → (s.stream k).isPendingOpen = false →
      ¬ ((s.stream k).state.isSendClosed = true ∧ (s.stream k).bufferedSendData = 0) →
      ¬ (inI32 ((s.stream k).sendFlow.windowSize.val + u32AsI32 inc) = true ∧
          (s.stream k).sendFlow.windowSize.val + u32AsI32 inc ≤ (Generated.Consts.MAX_WINDOW_SIZE : Int)) →
      s.recvWindowUpdate id inc =
        (s.sendSendReset k FLOW_CONTROL_ERROR .library).resetOnRecvStreamErr k
          (.error (PErr.libraryReset id FLOW_CONTROL_ERROR))) :=
  ⟨(resetOnRecvStreamErr_spec s k sid reason init).1, (resetOnRecvStreamErr_spec s k sid reason init).2.1,
   (resetOnRecvStreamErr_spec s k sid reason init).2.2,
   fun id inc h0 hk hp hc ho => recvWindowUpdate_stream_overflow s id inc k h0 hk hp hc ho⟩

/-- **tolerated at the framing level**: a frame of unknown type (outside a header block) is skipped —
    no frame, no error, reader untouched; an unknown SETTINGS identifier leaves the accumulated
    values untouched; PRIORITY on any non-zero stream (idle, open, closed) with a dependency other
    than itself decodes to a PRIORITY frame; padded DATA with a valid pad length decodes to the
    data without its padding. -/
theorem tolerated_framing (r : Reader) (bytes : Bytes) (hp : r.partialBlk = none) :
    ((hd bytes).kind > 9 → decodeFrame r bytes = (r, .none)) ∧
    (∀ acc id val, id ≠ 1 ∧ id ≠ 2 ∧ id ≠ 3 ∧ id ≠ 4 ∧ id ≠ 5 ∧ id ≠ 6 ∧ id ≠ 8 → applySetting acc id val = some acc) ∧
    ((hd bytes).kind = 2 → (hd bytes).sid ≠ 0 → (pl bytes).length = 5 → (parseStreamId (pl bytes)).1 ≠ (hd bytes).sid →
      decodeFrame r bytes = (r, .frame (.priority (hd bytes).sid (parseStreamId (pl bytes)).1 ((pl bytes).getD 4 0)
        (parseStreamId (pl bytes)).2))) ∧
    (∀ padLen rest, (hd bytes).kind = 0 → (hd bytes).sid ≠ 0 → (hd bytes).flag &&& 9 &&& 8 = 8 →
      pl bytes = padLen :: rest → padLen < rest.length + 1 →
      decodeFrame r bytes = (r, .frame (.data (hd bytes).sid (rest.take (rest.length - padLen))
        ((hd bytes).flag &&& 9 &&& 1 = 1) (some padLen)))) :=
  ⟨decode_unknown_type r bytes hp, applySetting_unknown,
   decode_priority_ok r bytes hp, fun padLen rest => decode_data_padded_ok r bytes padLen rest hp⟩

example : (hd [0,0,8,0x42,0xff,0,0,0,0, 1,2,3,4,5,6,7,8]).kind > 9 := by decide

/-- **tolerated by the connection**: a PRIORITY frame is dropped by `recv_frame` without looking at
    any stream — nothing changes; a PING ACK nobody asked for is swallowed (`C14`). -/
theorem tolerated_priority (c : Conn) (sid dep w : Nat) (e : Bool) :
    c.recvFrame (some (.priority sid dep w e)) = (c, .ok .continue) := rfl

/-- **tolerated by the stream layer — races with a local reset and late frames** (§5.4.2, §6.4,
    §6.9): HEADERS for a stream the endpoint has reset are dropped with no change at all; DATA for
    such a stream is only accounted against — and handed straight back to — the connection window
    (`ignore_data`, which touches neither the store, nor the counts, nor the send side); RST_STREAM
    and WINDOW_UPDATE for a stream that is gone but did exist, and WINDOW_UPDATE for a stream whose
    sending side is finished, are accepted with no change at all. -/
theorem tolerated_late_frames (s : Streams) :
    (∀ (h : HeadersIn) k, ¬ h.sid > s.recv.maxStreamId → s.store.findKey? h.sid = some k →
      (s.stream k).isPendingOpen = false → (s.stream k).state.isLocalError = true → s.recvHeaders h = (s, .ok ())) ∧
    (∀ k payload eos, payload.length ≤ Generated.Consts.MAX_WINDOW_SIZE → (s.stream k).state.isLocalError = true →
      s.recvRecvData k payload eos none = s.ignoreData (usizeAsU32 payload.length)) ∧
    (∀ sz, (s.ignoreData sz).1.store = s.store ∧ (s.ignoreData sz).1.counts = s.counts ∧
      (s.ignoreData sz).1.actions.send = s.actions.send) ∧
    (∀ id r, id ≠ 0 → ¬ id > s.recv.maxStreamId → s.store.findKey? id = none → s.ensureNotIdle id = .ok () →
      s.recvReset id r = (s, .ok ())) ∧
    (∀ id inc, id ≠ 0 → s.store.findKey? id = none → s.ensureNotIdle id = .ok () →
      s.recvWindowUpdate id inc = (s, .ok ())) ∧
    (∀ id inc k, id ≠ 0 → s.store.findKey? id = some k → (s.stream k).isPendingOpen = false →
      (s.stream k).state.isSendClosed = true → (s.stream k).bufferedSendData = 0 →
      s.recvWindowUpdate id inc = (s, .ok ())) :=
  ⟨fun h k => recvHeaders_after_local_reset s h k, fun k p e => recvRecvData_after_local_reset s k p e,
   ignoreData_store s, fun id r => recvReset_forgotten s id r, fun id inc => recvWindowUpdate_forgotten s id inc,
   fun id inc k => recvWindowUpdate_send_closed s id inc k⟩

-- ===================================================================== the chain on a concrete connection

/-- a client after its SETTINGS exchange, with `bytes` waiting on the transport -/
def demoWith (bytes : Bytes) : Conn :=
  let c0 := Conn.init {}
  let c1 := (Conn.clientPoll 50 { c0 with codec := { c0.codec with io := { c0.codec.io with rd := [0,0,0,4,0,0,0,0,0] } } }).1
  let io : Tio := { c1.codec.io with rd := bytes, tx := [] }
  { c1 with codec := { c1.codec with io := io }, streams := c1.streams.cloneHandle }

/-- what the loop of `Connection::poll2` does with `demoWith bytes`: (the reason of the connection
    error it ends with, if any; the PING payloads it answered) -/
def verdict (bytes : Bytes) : Option Nat × List (List Nat) :=
  let r := poll2LoopT 50 (demoWith bytes)
  ((match r.1.2 with | .ready (.error (.goAway _ code _)) => some code | _ => none), pongP r.2)

/-- the PING used to see whether the endpoint still answers -/
def probe : Bytes := [0,0,8,6,0,0,0,0,0, 0xc0,9,0xc0,9,0xc0,9,0xc0,9]

/-- **connection class, end to end** (the links above composed by evaluation on a concrete
    connection): each of these frames of the harness catalogue, followed by a PING, makes `poll2` end
    with the connection error PROTOCOL_ERROR (FLOW_CONTROL_ERROR for the window overflow) without
    answering — or even reading — the PING; `connection_error_is_fatal` says what follows.  PING on a
    stream; SETTINGS on a stream; RST_STREAM on stream 0; PING of 7 octets; SETTINGS with ENABLE_PUSH
    = 2; WINDOW_UPDATE(0) on the connection; WINDOW_UPDATE(0) on a stream (a connection error in
    h2); a connection WINDOW_UPDATE overflowing 2^31-1; DATA on an idle stream; a stray
    CONTINUATION; PUSH_PROMISE on an unknown stream; RST_STREAM on an idle stream. -/
theorem connection_class_end_to_end :
    verdict ([0,0,8,6,0,0,0,0,1, 0,0,0,0,0,0,0,0] ++ probe) = (some 1, []) ∧
    verdict ([0,0,0,4,0,0,0,0,1] ++ probe) = (some 1, []) ∧
    verdict ([0,0,4,3,0,0,0,0,0, 0,0,0,8] ++ probe) = (some 1, []) ∧
    verdict ([0,0,7,6,0,0,0,0,0, 0,0,0,0,0,0,0] ++ probe) = (some 1, []) ∧
    verdict ([0,0,6,4,0,0,0,0,0, 0,2,0,0,0,2] ++ probe) = (some 1, []) ∧
    verdict ([0,0,4,8,0,0,0,0,0, 0,0,0,0] ++ probe) = (some 1, []) ∧
    verdict ([0,0,4,8,0,0,0,0,1, 0,0,0,0] ++ probe) = (some 1, []) ∧
    verdict ([0,0,4,8,0,0,0,0,0, 0x7f,0xff,0xff,0xff] ++ probe) = (some 3, []) ∧
    verdict ([0,0,3,0,0,0,0,0,5, 1,2,3] ++ probe) = (some 1, []) ∧
    verdict ([0,0,1,9,4,0,0,0,1, 0x88] ++ probe) = (some 1, []) ∧
    verdict ([0,0,7,5,4,0,0,0,1, 0,0,0,2,0x82,0x86,0x84] ++ probe) = (some 1, []) ∧
    verdict ([0,0,4,3,0,0,0,0,7, 0,0,0,8] ++ probe) = (some 1, []) := by
  decide

/-- **tolerated class, end to end**: after an unknown frame type (on the connection or on a stream),
    an unknown setting, a PRIORITY frame on an idle stream (also one depending exclusively on
    another stream), a PING ACK nobody asked for — `poll2` ends with no error and has answered the
    PING that follows. -/
theorem tolerated_class_end_to_end :
    verdict ([0,0,8,0x42,0xff,0,0,0,0, 1,2,3,4,5,6,7,8] ++ probe) = (none, [[0xc0,9,0xc0,9,0xc0,9,0xc0,9]]) ∧
    verdict ([0,0,0,0x17,0,0,0,0,3] ++ probe) = (none, [[0xc0,9,0xc0,9,0xc0,9,0xc0,9]]) ∧
    verdict ([0,0,6,4,0,0,0,0,0, 0,0x99,0,0,0,7] ++ probe) = (none, [[0xc0,9,0xc0,9,0xc0,9,0xc0,9]]) ∧
    verdict ([0,0,5,2,0,0,0,0,7, 0,0,0,0,200] ++ probe) = (none, [[0xc0,9,0xc0,9,0xc0,9,0xc0,9]]) ∧
    verdict ([0,0,5,2,0,0,0,0,8, 0x80,0,0,3,0] ++ probe) = (none, [[0xc0,9,0xc0,9,0xc0,9,0xc0,9]]) ∧
    verdict ([0,0,8,6,1,0,0,0,0, 9,9,9,9,9,9,9,9] ++ probe) = (none, [[0xc0,9,0xc0,9,0xc0,9,0xc0,9]]) := by
  decide

/-- WINDOW_UPDATE with a zero increment on a STREAM: RFC 9113 §6.9 asks for a stream error; h2
    rejects the frame in `decode_frame`, before any stream is looked at — a connection error
    (stricter than required, never laxer) -/
theorem window_update_zero_on_stream_is_connection_error (r : Reader) (hp : r.partialBlk = none) :
    decodeFrame r [0,0,4,8,0,0,0,0,1, 0,0,0,0] = (r, connErr) :=
  decode_windowUpdate_zero r _ hp (by decide) (by decide)

end H2V.Props.C09

#print axioms H2V.Props.C09.framing_violations
#print axioms H2V.Props.C09.header_block_interleaving
#print axioms H2V.Props.C09.settings_value_violations
#print axioms H2V.Props.C09.decode_error_reaches_poll
#print axioms H2V.Props.C09.codec_error_code
#print axioms H2V.Props.C09.stream_layer_connection_errors
#print axioms H2V.Props.C09.idle_iff
#print axioms H2V.Props.C09.recv_frame_error_ends_poll2
#print axioms H2V.Props.C09.connection_error_is_fatal
#print axioms H2V.Props.C09.flow_control_overruns
#print axioms H2V.Props.C09.stream_errors_are_contained
#print axioms H2V.Props.C09.tolerated_framing
#print axioms H2V.Props.C09.tolerated_priority
#print axioms H2V.Props.C09.tolerated_late_frames
#print axioms H2V.Props.C09.connection_class_end_to_end
#print axioms H2V.Props.C09.tolerated_class_end_to_end
#print axioms H2V.Props.C09.window_update_zero_on_stream_is_connection_error
