import H2V.Lemmas.Comp
/-
  Component-level property theorems (flow-control arithmetic and the per-stream state machine),
  about the very definitions the connection model (`H2V/Model/Conn*.lean`) is built from.
  Property theorems only; lemmas in `H2V/Lemmas/Comp*.lean`.  The connection-level theorems of each
  property live in `H2V/Props/Cnn.lean`.
-/
namespace H2V.Props.CompBase
open H2V H2V.Model.Conn H2V.Lemmas.Comp
open H2V.Generated.Consts (MAX_WINDOW_SIZE)

-- ============================================================================ C02 / C16 (send windows)
namespace C02

/-- **a DATA frame is only charged against a window that covers it**: `FlowControl::send_data(sz)`
    with `0 < sz < 2^31` succeeds only if `sz ≤ window_size`, and then window and available both go
    down by exactly `sz` (what `Prioritize::pop_frame` relies on for stream and connection). -/
theorem send_data_within_window {f f' : FlowControl} {sz : Nat} (hpos : 0 < sz) (hsz : sz < 2147483648)
    (h : f.sendData sz = (f', .ok ())) :
    (sz : Int) ≤ f.windowSize.val ∧ f'.windowSize.val = f.windowSize.val - sz ∧
    f'.available.val = f.available.val - sz := Lemmas.Comp.sendData_ok hpos hsz h

example : FlowControl.sendData ⟨⟨10⟩, ⟨10⟩⟩ 4 = (⟨⟨6⟩, ⟨6⟩⟩, .ok ()) := by decide

/-- **window ledger**: after ANY history of flow-control calls the window equals the initial value plus
    the credits of the successful `inc_window`s minus the debits of the successful decrements minus
    the `leaks` (partial updates of failing calls, see `Lemmas.Comp.FOp.leak_ne_zero_iff`). -/
theorem window_ledger (f : FlowControl) (ops : List FOp) :
    (run f ops).windowSize.val = f.windowSize.val + credits f ops - debits f ops - leaks f ops :=
  Lemmas.Comp.window_ledger f ops

/-- **a window never exceeds 2^31−1**, whatever sequence of updates arrives (a larger sum is refused
    with FLOW_CONTROL_ERROR and nothing is written) -/
theorem window_never_above_max (f : FlowControl) (ops : List FOp)
    (h : f.windowSize.val ≤ (MAX_WINDOW_SIZE : Int)) :
    (run f ops).windowSize.val ≤ (MAX_WINDOW_SIZE : Int) := Lemmas.Comp.window_never_above_max f ops h

example : (FlowControl.new).windowSize.val ≤ (MAX_WINDOW_SIZE : Int) := by decide

end C02

-- ============================================================================ C03 (receive windows)
namespace C03

/-- **a WINDOW_UPDATE credit is exact and bounded**: a successful `inc_window(sz)` adds exactly `sz`
    (as i32) to the window, leaves it ≤ 2^31−1, and does not touch `available`. -/
theorem inc_window_exact {f f' : FlowControl} {sz : Nat} (h : f.incWindow sz = (f', .ok ())) :
    f'.windowSize.val = f.windowSize.val + u32AsI32 sz ∧ f'.windowSize.val ≤ (MAX_WINDOW_SIZE : Int) ∧
    inI32 f'.windowSize.val = true ∧ f'.available = f.available := Lemmas.Comp.incWindow_ok h

/-- **`available` is only changed by successful calls** (no credit is invented or lost by a failing one) -/
theorem available_ledger (f : FlowControl) (ops : List FOp) :
    (run f ops).available.val = f.available.val + availCredits f ops - availDebits f ops :=
  Lemmas.Comp.available_ledger f ops

end C03

-- ============================================================================ C04 / C17 (stream life cycle)
namespace C04

/-- **the stream state machine refines RFC 9113 Figure 2**: along any history of successful state
    operations (outside the three documented lenient spots) the abstracted state follows the RFC's
    life-cycle automaton (`H2V/Spec/Lifecycle.lean`) on the corresponding event sequence — so that
    event sequence is RFC-legal. -/
theorem state_machine_refines_rfc (s : State) (ops : List Op) (h : Legal s ops) :
    Spec.Lifecycle.steps (phase s) (ops.filterMap Op.ev) = some (phase (runOps s ops)) :=
  trace_refines s ops h

end C04

end H2V.Props.CompBase
