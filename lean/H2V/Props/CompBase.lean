import H2V.Lemmas.Comp
import H2V.Model.ConnCounts
/-
  Component-level property theorems (flow-control arithmetic and the per-stream state machine),
  about the very definitions the connection model (`H2V/Model/Conn*.lean`) is built from.
  Property theorems only; lemmas in `H2V/Lemmas/Comp*.lean`.  The connection-level theorems of each
  property live in `H2V/Props/Cnn.lean`.
-/
namespace H2V.Props.CompBase
open H2V H2V.Model.Conn H2V.Lemmas.Comp
open H2V.Generated.Consts (MAX_WINDOW_SIZE)

-- ============================================================================ C02 / C16 (send windows)
namespace C02

/-- **a DATA frame is only charged against a window that covers it**: `FlowControl::send_data(sz)`
    with `0 < sz < 2^31` succeeds only if `sz ≤ window_size`, and then window and available both go
    down by exactly `sz` (what `Prioritize::pop_frame` relies on for stream and connection). -/
theorem send_data_within_window {f f' : FlowControl} {sz : Nat} (hpos : 0 < sz) (hsz : sz < 2147483648)
    (h : f.sendData sz = (f', .ok ())) :
    (sz : Int) ≤ f.windowSize.val ∧ f'.windowSize.val = f.windowSize.val - sz ∧
    f'.available.val = f.available.val - sz := Lemmas.Comp.sendData_ok hpos hsz h

example : FlowControl.sendData ⟨⟨10⟩, ⟨10⟩⟩ 4 = (⟨⟨6⟩, ⟨6⟩⟩, .ok ()) := by decide

/-- **window ledger**: after ANY history of flow-control calls the window equals the initial value plus
    the credits of the successful `inc_window`s minus the debits of the successful decrements minus
    the `leaks` (partial updates of failing calls, see `Lemmas.Comp.FOp.leak_ne_zero_iff`). -/
theorem window_ledger (f : FlowControl) (ops : List FOp) :
    (run f ops).windowSize.val = f.windowSize.val + credits f ops - debits f ops - leaks f ops :=
  Lemmas.Comp.window_ledger f ops

/-- **a window never exceeds 2^31−1**, whatever sequence of updates arrives (a larger sum is refused
    with FLOW_CONTROL_ERROR and nothing is written) -/
theorem window_never_above_max (f : FlowControl) (ops : List FOp)
    (h : f.windowSize.val ≤ (MAX_WINDOW_SIZE : Int)) :
    (run f ops).windowSize.val ≤ (MAX_WINDOW_SIZE : Int) := Lemmas.Comp.window_never_above_max f ops h

example : (FlowControl.new).windowSize.val ≤ (MAX_WINDOW_SIZE : Int) := by decide

end C02

-- ============================================================================ C03 (receive windows)
namespace C03

/-- **a WINDOW_UPDATE credit is exact and bounded**: a successful `inc_window(sz)` adds exactly `sz`
    (as i32) to the window, leaves it ≤ 2^31−1, and does not touch `available`. -/
theorem inc_window_exact {f f' : FlowControl} {sz : Nat} (h : f.incWindow sz = (f', .ok ())) :
    f'.windowSize.val = f.windowSize.val + u32AsI32 sz ∧ f'.windowSize.val ≤ (MAX_WINDOW_SIZE : Int) ∧
    inI32 f'.windowSize.val = true ∧ f'.available = f.available := Lemmas.Comp.incWindow_ok h

/-- **`available` is only changed by successful calls** (no credit is invented or lost by a failing one) -/
theorem available_ledger (f : FlowControl) (ops : List FOp) :
    (run f ops).available.val = f.available.val + availCredits f ops - availDebits f ops :=
  Lemmas.Comp.available_ledger f ops

end C03

-- ============================================================================ C04 / C17 (stream life cycle)
namespace C04

/-- **the stream state machine refines RFC 9113 Figure 2**: along any history of successful state
    operations (outside the three documented lenient spots) the abstracted state follows the RFC's
    life-cycle automaton (`H2V/Spec/Lifecycle.lean`) on the corresponding event sequence — so that
    event sequence is RFC-legal. -/
theorem state_machine_refines_rfc (s : State) (ops : List Op) (h : Legal s ops) :
    Spec.Lifecycle.steps (phase s) (ops.filterMap Op.ev) = some (phase (runOps s ops)) :=
  trace_refines s ops h

end C04

-- ============================================================================ C05 / C18 (counters and quotas)
namespace C05

/-- **a stream is only counted while there is room**: `can_inc_num_recv_streams` / `…_send_streams`
    hold exactly when one more stream still fits under the limit (the guard every open path asks) -/
theorem can_inc_iff (c : Counts) :
    (c.canIncNumRecvStreams = true ↔ c.numRecvStreams + 1 ≤ c.maxRecvStreams) ∧
    (c.canIncNumSendStreams = true ↔ c.numSendStreams + 1 ≤ c.maxSendStreams) := by
  simp [Counts.canIncNumRecvStreams, Counts.canIncNumSendStreams]; omega

/-- **the peer's new SETTINGS_MAX_CONCURRENT_STREAMS replaces the send limit**; an absent value in the
    first SETTINGS means "no limit", in later ones "unchanged" -/
theorem apply_remote_settings (c : Counts) (v : Option Nat) (initial : Bool) :
    (c.applyRemoteSettings v initial).maxSendStreams =
      match v with | some n => n | none => if initial then USIZE_MAX else c.maxSendStreams := by
  cases v <;> simp [Counts.applyRemoteSettings] <;> split <;> rfl

end C05

namespace C18

/-- **the memory of locally reset streams never exceeds its quota**: the counter only grows through
    `inc_num_reset_streams`, which refuses (the Rust `assert!`) beyond `max_local_reset_streams` -/
theorem reset_quota (c c' : Counts) (h : c.incNumResetStreams = some c') :
    c'.numLocalResetStreams ≤ c'.maxLocalResetStreams ∧ c'.numLocalResetStreams = c.numLocalResetStreams + 1 := by
  unfold Counts.incNumResetStreams at h
  split at h
  · next hc => cases h; simp [Counts.canIncNumResetStreams] at hc; exact ⟨by simp; omega, rfl⟩
  · cases h

/-- **library-initiated resets are bounded** (the rapid-reset guard): beyond `max_local_error_resets`
    the increment is refused — the caller answers with GOAWAY(ENHANCE_YOUR_CALM) instead -/
theorem local_error_reset_quota (c c' : Counts) (m : Nat) (hm : c.maxLocalErrorResetStreams = some m)
    (h : c.incNumLocalErrorResets = some c') : c'.numLocalErrorResetStreams ≤ m := by
  unfold Counts.incNumLocalErrorResets at h
  split at h
  · next hc => cases h; simp [Counts.canIncNumLocalErrorResets, hm] at hc; simp; omega
  · cases h

/-- **a tiny-DATA flood is paid for**: every accepted non-empty DATA frame shorter than the overhead
    threshold costs `threshold − len` of a budget that only refills by the surplus of larger frames,
    so a run of such frames ends in `BudgetExhausted` (connection error) after a bounded number -/
theorem tiny_data_costs (c c' : Counts) (len : Nat) (h0 : len ≠ 0)
    (hlt : len < Generated.Consts.DEFAULT_DATA_FRAME_OVERHEAD_THRESHOLD)
    (h : c.recordDataFrame len = (c', true)) :
    c'.dataFrameBudget.available + (Generated.Consts.DEFAULT_DATA_FRAME_OVERHEAD_THRESHOLD - len) =
      c.dataFrameBudget.available := by
  unfold Counts.recordDataFrame at h
  simp only [h0, if_false, hlt, if_true] at h
  cases hb : c.dataFrameBudget.consume (Generated.Consts.DEFAULT_DATA_FRAME_OVERHEAD_THRESHOLD - len) with
  | none => simp [hb] at h
  | some b =>
    simp only [hb, Prod.mk.injEq, and_true] at h
    subst h
    unfold Budget.consume at hb
    split at hb
    · next hge => cases hb; simp only; omega
    · cases hb

example : (Counts.recordDataFrame {} 1).2 = true := by decide

end C18

-- ============================================================================ C16 (capacity bookkeeping)
namespace C16

/-- **assigning and claiming capacity are exact and never touch the window**: what
    `assign_capacity` adds to `available` is exactly what a later `claim_capacity` (capacity given
    back / handed to a stream) removes; the peer-granted window is untouched by either -/
theorem assign_claim_exact {f f1 f2 : FlowControl} {sz : Nat}
    (h1 : f.assignCapacity sz = (f1, .ok ())) (h2 : f1.claimCapacity sz = (f2, .ok ())) :
    f2.available.val = f.available.val ∧ f2.windowSize = f.windowSize := by
  obtain ⟨a1, _, w1⟩ := Lemmas.Comp.assignCapacity_ok h1
  obtain ⟨a2, _, w2⟩ := Lemmas.Comp.claimCapacity_ok h2
  exact ⟨by omega, by rw [w2, w1]⟩

example : (FlowControl.assignCapacity ⟨⟨10⟩, ⟨0⟩⟩ 4) = (⟨⟨10⟩, ⟨4⟩⟩, .ok ()) := by decide

end C16

end H2V.Props.CompBase
