import H2V.Lemmas.ConnNoPanicPMain
/-
  C08 — no peer input (and no use of the documented API) can make an endpoint panic.
  PROPERTY THEOREMS ONLY; proofs in H2V/Lemmas/ConnNoPanicP*.lean, status and the site-by-site
  classification of every `assert!` / `unwrap` / `expect` / `unreachable!` in
  H2V/Lemmas/ConnNoPanicPNOTES.md.

  The model records the first `assert!`/`expect`/`unwrap` of the real code that would have fired, and
  the first use of a dangling `store::Key` (`store.resolve(key)` panics), in `Streams.panicked`.
  A theorem "`….panicked = none`" therefore says: none of these sites fired during the call.

  `NPQ s` ("good state"): no panic so far; slab keys pairwise distinct and below `next_key`; the
  `pending_capacity` queue holds exactly the live slab entries whose `is_pending_send_capacity` flag
  is set, each once (so the key that `assign_connection_capacity` pops — deep inside almost every
  function of prioritize.rs/send.rs — resolves); every stream's assigned send capacity is an `i32`.
  `Live s k`: the slab has an entry with key `k`.
  The first three parts of `NPQ` are proved for every reachable un-panicked state by the ConnCountsP
  family (`H2V.Props.C19.queues_hold_no_stale_keys`, `bookkeeping_returns_to_idle`); the last is what
  `i32` arithmetic gives (`FlowControl` only stores results of `checked_add`/`checked_sub`).
-/
namespace H2V.Props.C08NoPanic
open H2V H2V.Model H2V.Model.Conn H2V.Lemmas.ConnNoPanicP

/-- **`StreamRef::send_data` cannot panic.**  From a good state, with a live stream key, the body of
    `Prioritize::send_data` (buffer accounting, `try_assign_capacity`, `State::send_close` on END_STREAM,
    `reserve_capacity(0)` → `assign_connection_capacity`, `queue_frame`/`schedule_send`) reaches none of its
    panic sites — in particular `panic!("send_close: unexpected state")` is dead code (the state was checked
    to be send-streaming and nothing in between touches it), and every key popped from `pending_capacity`
    resolves — and it leaves a good state behind.  All arguments arbitrary. -/
theorem send_data_cannot_panic {s : Streams} (h : NPQ s) {k : Nat} (hk : Live s k) (len : Nat) (eos : Bool) :
    (s.prioSendData k len eos).1.panicked = none ∧ NPQ (s.prioSendData k len eos).1 :=
  (prioSendData_lt s k len eos).run1 h hk

/-- non-vacuity: an open stream with a handle; END_STREAM data is accepted and the stream is send-closed -/
example : NPQ wS ∧ Live wS 0 ∧ (wS.prioSendData 0 10 true).2 = .ok () ∧
    ((wS.prioSendData 0 10 true).1.stream 0).state.isSendClosed = true := ⟨wS_npq, wS_live, by decide, by decide⟩

/-- **`SendStream::send_trailers` cannot panic** (same `send_close` site, same reason). -/
theorem send_trailers_cannot_panic {s : Streams} (h : NPQ s) {k : Nat} (hk : Live s k) (f : List Hpack.Field) :
    (s.sendTrailers k f).1.panicked = none ∧ NPQ (s.sendTrailers k f).1 :=
  (sendTrailers_lt s k f).run1 h hk

example : NPQ wS ∧ Live wS 0 ∧ (wS.sendTrailers 0 []).2 = .ok () := ⟨wS_npq, wS_live, by decide⟩

/-- **`Send::send_reset` cannot panic** (user reset, library reset, reset after a stream error): `set_reset`,
    the `pending_open` special case, `clear_queue`, `queue_frame(RST_STREAM)`, `reclaim_all_capacity` →
    `assign_connection_capacity` use only live keys. -/
theorem send_reset_cannot_panic {s : Streams} (h : NPQ s) {k : Nat} (hk : Live s k) (r : Reason) (i : Initiator) :
    (s.sendSendReset k r i).panicked = none ∧ NPQ (s.sendSendReset k r i) :=
  (sendSendReset_lt s k r i).run1 h hk

example : NPQ wS ∧ Live wS 0 ∧ ((wS.sendSendReset 0 CANCEL .user).stream 0).pendingSend = [.reset CANCEL] :=
  ⟨wS_npq, wS_live, by decide⟩

/-- **`reserve_capacity` / `poll_capacity` / `poll_reset` cannot panic.** -/
theorem capacity_calls_cannot_panic {s : Streams} (h : NPQ s) {k : Nat} (hk : Live s k) (cap : Nat) (tag : String)
    (m : PollReset) :
    (s.refReserveCapacity k cap).panicked = none ∧ (s.pollCapacity k tag).1.panicked = none ∧
    (s.pollReset k m tag).1.panicked = none :=
  ⟨((refReserveCapacity_lt s k cap).run1 h hk).1, ((pollCapacity_lt s k tag).run1 h hk).1,
   ((pollReset_lt s k m tag).run1 h hk).1⟩

example : NPQ wS ∧ Live wS 0 ∧ ((wS.refReserveCapacity 0 100).stream 0).requestedSendCapacity = 100 :=
  ⟨wS_npq, wS_live, by decide⟩

/-- **The implicit reset of a dropped stream cannot panic**: `maybe_cancel` → `schedule_implicit_reset` →
    `reclaim_reserved_capacity`, whose `expect("window size should be greater than reserved")` is dead:
    the reserved amount `available − buffered` (computed in `u32`) is positive and at most `available`,
    which is an `i32`, so `claim_capacity` cannot leave the `i32` range. -/
theorem implicit_reset_cannot_panic {s : Streams} (h : NPQ s) {k : Nat} (hk : Live s k) :
    (s.maybeCancel k).panicked = none ∧ NPQ (s.maybeCancel k) :=
  (maybeCancel_lt s k).run1 h hk

/-- non-vacuity: the last handle of an open stream is gone → CANCEL scheduled -/
example : let s := wS.modStream 0 fun st => { st with refCount := 0 }
    ((s.maybeCancel 0).stream 0).state.getScheduledReset = some CANCEL := by decide

/-- **`Recv::recv_headers` cannot panic — the counting asserts of `inc_num_recv_streams` included**
    (positive statement for finding F31: before the repair a server that promised more streams than the
    client's `max_concurrent_streams` and then opened them made the client panic in
    `assert!(self.can_inc_num_recv_streams())`; `recv_headers` now refuses the stream when the limit
    is reached).  For every HEADERS frame, every live stream, every good state: neither
    `assert!(self.can_inc_num_recv_streams())` nor `assert!(!stream.is_counted)` fires — both are
    tested by `recv_headers` itself right before the call and nothing in between touches the counters. -/
theorem recv_headers_cannot_panic {s : Streams} (h : NPQ s) {k : Nat} (hk : Live s k) (hd : HeadersIn) :
    (s.recvRecvHeaders k hd).1.panicked = none ∧ NPQ (s.recvRecvHeaders k hd).1 :=
  (recvRecvHeaders_lt s k hd).run1 h hk

/-- non-vacuity, on the F31 witness shape: a reserved (promised) stream while the receive limit is reached:
    the response HEADERS is refused with a stream error instead of counted -/
example : let x : Stream := { key := 0, id := 2, state := { inner := .reservedRemote } }
    let s : Streams := { counts := { maxRecvStreams := 1, numRecvStreams := 1 }, store := { slab := [x], ids := [(2, 0)], nextKey := 1 } }
    (s.recvRecvHeaders 0 { sid := 2, eos := false, status := some [50, 48, 48] }).1.panicked = none ∧
    (s.recvRecvHeaders 0 { sid := 2, eos := false, status := some [50, 48, 48] }).1.counts.numRecvStreams = 1 := by decide

/-- **`Recv::recv_data` cannot panic** for a frame whose flow-controlled length is a legal frame length
    (`≤ MAX_WINDOW_SIZE`; a frame is at most 2^24 octets): the two `FlowControl::send_data` asserts
    (`window_size >= sz`) are dead — `recv_data` / `consume_connection_window` test `window_size() < sz`
    first and nothing in between touches the window. -/
theorem recv_data_cannot_panic {s : Streams} (h : NPQ s) {k : Nat} (hk : Live s k) (payload : Bytes) (eos : Bool)
    (pad : Option Nat)
    (hlen : payload.length + (match pad with | some p => p + 1 | none => 0) ≤ Generated.Consts.MAX_WINDOW_SIZE) :
    (s.recvRecvData k payload eos pad).1.panicked = none ∧ NPQ (s.recvRecvData k payload eos pad).1 :=
  (recvRecvData_lt s k payload eos pad hlen).run1 h hk

/-- non-vacuity: DATA on an open stream with receive window -/
example : let fl : FlowControl := { windowSize := { val := 65535 }, available := { val := 65535 } }
    let x : Stream := { key := 0, id := 1, state := { inner := .open .streaming .streaming }, recvFlow := fl }
    let s : Streams := { actions := { recv := { flow := fl } }, store := { slab := [x], ids := [(1, 0)], nextKey := 1 } }
    ((s.recvRecvData 0 [1, 2, 3] false none).1.stream 0).pendingRecv = [.data [1, 2, 3] true] := by decide

/-- the `assert!` inside `FlowControl::send_data` is dead behind the caller's window check, for every
    window and every size (all of `u32`, including sizes with the top bit set) -/
theorem window_assert_dead_behind_check (f : FlowControl) (sz : Nat) (h : ¬ f.windowSz < sz) :
    (f.sendData sz).2 ≠ .error .assertFailed :=
  sendData_no_assert' f sz h

example : ¬ ({ windowSize := { val := 10 }, available := { val := 10 } } : FlowControl).windowSz < 10 := by decide

/-- **RST_STREAM from the peer, errors, EOF on one stream cannot panic**: `Recv::recv_reset` (the
    `inc_num_remote_reset_streams` assert is guarded by its own `can_inc` test), `Recv::handle_error`,
    `Recv::recv_eof`, `Send::handle_error`, `Recv::enqueue_reset_expiration` (guarded likewise). -/
theorem stream_teardown_cannot_panic {s : Streams} (h : NPQ s) {k : Nat} (hk : Live s k) (r : Reason) (e : PErr) :
    (s.recvRecvReset k r).1.panicked = none ∧ (s.recvHandleError k e).panicked = none ∧
    (s.recvRecvEof k).panicked = none ∧ (s.sendHandleError k).panicked = none ∧
    (s.enqueueResetExpiration k).panicked = none :=
  ⟨((recvRecvReset_lt s k r).run1 h hk).1, ((recvHandleError_lt s k e).run1 h hk).1, ((recvRecvEof_lt s k).run1 h hk).1,
   ((sendHandleError_lt s k).run1 h hk).1, ((enqueueResetExpiration_lt s k).run1 h hk).1⟩

example : NPQ wS ∧ Live wS 0 ∧ ((wS.recvRecvReset 0 CANCEL).1.stream 0).state.isClosed = true := ⟨wS_npq, wS_live, by decide⟩

/-- **A stream error answered with RST_STREAM cannot panic** (`Actions::reset_on_recv_stream_err`): the
    `inc_num_local_error_resets` assert is guarded by `can_inc_num_local_error_resets`, the reset itself is
    `send_reset_cannot_panic`. -/
theorem stream_error_reset_cannot_panic {s : Streams} (h : NPQ s) {k : Nat} (hk : Live s k) (res : Except PErr Unit) :
    (s.resetOnRecvStreamErr k res).1.panicked = none ∧ NPQ (s.resetOnRecvStreamErr k res).1 :=
  (resetOnRecvStreamErr_ltw s k res).run1 h hk

example : NPQ wS ∧ Live wS 0 ∧
    ((wS.resetOnRecvStreamErr 0 (.error (.reset 1 PROTOCOL_ERROR .library))).1.stream 0).pendingSend = [.reset PROTOCOL_ERROR] :=
  ⟨wS_npq, wS_live, by decide⟩

/-- **WINDOW_UPDATE cannot panic**: connection level (`assign_connection_capacity` pops only live keys and
    its `transition` never releases a stream) and stream level (including the FLOW_CONTROL_ERROR reset). -/
theorem window_update_cannot_panic {s : Streams} (h : NPQ s) {k : Nat} (hk : Live s k) (inc : Nat) :
    (s.recvConnectionWindowUpdate inc).1.panicked = none ∧ (s.sendRecvStreamWindowUpdate k inc).1.panicked = none :=
  ⟨((recvConnectionWindowUpdate_lt s inc).run0 h).1, ((sendRecvStreamWindowUpdate_lt s k inc).run1 h hk).1⟩

example : NPQ wS ∧ Live wS 0 ∧ ((wS.sendRecvStreamWindowUpdate 0 5).1.stream 0).sendFlow.windowSize.val = 65540 :=
  ⟨wS_npq, wS_live, by decide⟩

/-- **The receive-side handle calls cannot panic**: `poll_data`, `poll_trailers`, `poll_informational`,
    `release_capacity`, `clear_recv_buffer` (`Drop for RecvStream`). -/
theorem recv_handles_cannot_panic {s : Streams} (h : NPQ s) {k : Nat} (hk : Live s k) (tag : String) (cap : Nat) :
    (s.refPollData k tag).1.panicked = none ∧ (s.recvPollTrailers k tag).1.panicked = none ∧
    (s.recvPollInformational k tag).1.panicked = none ∧ (s.refReleaseCapacity k cap).1.panicked = none ∧
    (s.refClearRecvBuffer k).panicked = none :=
  ⟨((refPollData_lt s k tag).run1 h hk).1, ((recvPollTrailers_lt s k tag).run1 h hk).1,
   ((recvPollInformational_lt s k tag).run1 h hk).1, ((refReleaseCapacity_lt s k cap).run1 h hk).1,
   ((refClearRecvBuffer_lt s k).run1 h hk).1⟩

example : NPQ wS ∧ Live wS 0 ∧ (wS.refPollData 0 "b").1.panicked = none := ⟨wS_npq, wS_live, by decide⟩

end H2V.Props.C08NoPanic

#print axioms H2V.Props.C08NoPanic.send_data_cannot_panic
#print axioms H2V.Props.C08NoPanic.send_trailers_cannot_panic
#print axioms H2V.Props.C08NoPanic.send_reset_cannot_panic
#print axioms H2V.Props.C08NoPanic.capacity_calls_cannot_panic
#print axioms H2V.Props.C08NoPanic.implicit_reset_cannot_panic
#print axioms H2V.Props.C08NoPanic.recv_headers_cannot_panic
#print axioms H2V.Props.C08NoPanic.recv_data_cannot_panic
#print axioms H2V.Props.C08NoPanic.window_assert_dead_behind_check
#print axioms H2V.Props.C08NoPanic.stream_teardown_cannot_panic
#print axioms H2V.Props.C08NoPanic.stream_error_reset_cannot_panic
#print axioms H2V.Props.C08NoPanic.window_update_cannot_panic
#print axioms H2V.Props.C08NoPanic.recv_handles_cannot_panic
