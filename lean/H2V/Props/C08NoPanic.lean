import H2V.Lemmas.ConnNoPanicPMain
import H2V.Lemmas.ConnNoPanicPReach
import H2V.Lemmas.ConnNoPanicPHist
import H2V.Lemmas.ConnNoPanicPAll
import H2V.Lemmas.ConnNoPanicPAll2
import H2V.Lemmas.ConnNoPanicPAll3
import H2V.Lemmas.ConnNoPanicPAll5
import H2V.Lemmas.ConnNoPanicPConnTop
import H2V.Lemmas.ConnNoPanicPFiWitness
import H2V.Lemmas.ConnNoPanicPDsOh
import H2V.Lemmas.ConnNoPanicPFuel
/-
  C08 — no peer input (and no use of the documented API) can make an endpoint panic.
  PROPERTY THEOREMS ONLY; proofs in H2V/Lemmas/ConnNoPanicP*.lean, status and the site-by-site
  classification of every `assert!` / `unwrap` / `expect` / `unreachable!` in
  H2V/Lemmas/ConnNoPanicPNOTES.md.

  THE GENERAL THEOREMS are at the end of the file: `no_panic_in_any_reachable_connection_partial` (every reachable `Conn`:
  `panicked = none`, or one of the model's own out-of-fuel markers) and, at the stream layer,
  `no_panic_stream_layer_with_write_path_partial`; before them the per-function theorems and the stages
  (`Reach` → handles → invariants of the other families → no-push class → accept path → write path → connection).

  The model records the first `assert!`/`expect`/`unwrap` of the real code that would have fired, and
  the first use of a dangling `store::Key` (`store.resolve(key)` panics), in `Streams.panicked`.
  A theorem "`….panicked = none`" therefore says: none of these sites fired during the call.

  `NPQ s` ("good state"): no panic so far; slab keys pairwise distinct and below `next_key`; the
  `pending_capacity` queue holds exactly the live slab entries whose `is_pending_send_capacity` flag
  is set, each once (so the key that `assign_connection_capacity` pops — deep inside almost every
  function of prioritize.rs/send.rs — resolves); every stream's assigned send capacity is an `i32`.
  `Live s k`: the slab has an entry with key `k`.
  The first three parts of `NPQ` are proved for every reachable un-panicked state by the ConnCountsP
  family (`H2V.Props.C19.queues_hold_no_stale_keys`, `bookkeeping_returns_to_idle`); the last is what
  `i32` arithmetic gives (`FlowControl` only stores results of `checked_add`/`checked_sub`).
-/
namespace H2V.Props.C08NoPanic
open H2V H2V.Model H2V.Model.Conn H2V.Lemmas.ConnNoPanicP

/-- **`StreamRef::send_data` cannot panic.**  From a good state, with a live stream key, the body of
    `Prioritize::send_data` (buffer accounting, `try_assign_capacity`, `State::send_close` on END_STREAM,
    `reserve_capacity(0)` → `assign_connection_capacity`, `queue_frame`/`schedule_send`) reaches none of its
    panic sites — in particular `panic!("send_close: unexpected state")` is dead code (the state was checked
    to be send-streaming and nothing in between touches it), and every key popped from `pending_capacity`
    resolves — and it leaves a good state behind.  All arguments arbitrary. -/
theorem send_data_cannot_panic {s : Streams} (h : NPQ s) {k : Nat} (hk : Live s k) (len : Nat) (eos : Bool) :
    (s.prioSendData k len eos).1.panicked = none ∧ NPQ (s.prioSendData k len eos).1 :=
  (prioSendData_lt s k len eos).run1 h hk

/-- non-vacuity: an open stream with a handle; END_STREAM data is accepted and the stream is send-closed -/
example : NPQ wS ∧ Live wS 0 ∧ (wS.prioSendData 0 10 true).2 = .ok () ∧
    ((wS.prioSendData 0 10 true).1.stream 0).state.isSendClosed = true := ⟨wS_npq, wS_live, by decide, by decide⟩

/-- **`SendStream::send_trailers` cannot panic** (same `send_close` site, same reason). -/
theorem send_trailers_cannot_panic {s : Streams} (h : NPQ s) {k : Nat} (hk : Live s k) (f : List Hpack.Field) :
    (s.sendTrailers k f).1.panicked = none ∧ NPQ (s.sendTrailers k f).1 :=
  (sendTrailers_lt s k f).run1 h hk

example : NPQ wS ∧ Live wS 0 ∧ (wS.sendTrailers 0 []).2 = .ok () := ⟨wS_npq, wS_live, by decide⟩

/-- **`Send::send_reset` cannot panic** (user reset, library reset, reset after a stream error): `set_reset`,
    the `pending_open` special case, `clear_queue`, `queue_frame(RST_STREAM)`, `reclaim_all_capacity` →
    `assign_connection_capacity` use only live keys. -/
theorem send_reset_cannot_panic {s : Streams} (h : NPQ s) {k : Nat} (hk : Live s k) (r : Reason) (i : Initiator) :
    (s.sendSendReset k r i).panicked = none ∧ NPQ (s.sendSendReset k r i) :=
  (sendSendReset_lt s k r i).run1 h hk

example : NPQ wS ∧ Live wS 0 ∧ ((wS.sendSendReset 0 CANCEL .user).stream 0).pendingSend = [.reset CANCEL] :=
  ⟨wS_npq, wS_live, by decide⟩

/-- **`reserve_capacity` / `poll_capacity` / `poll_reset` cannot panic.** -/
theorem capacity_calls_cannot_panic {s : Streams} (h : NPQ s) {k : Nat} (hk : Live s k) (cap : Nat) (tag : String)
    (m : PollReset) :
    (s.refReserveCapacity k cap).panicked = none ∧ (s.pollCapacity k tag).1.panicked = none ∧
    (s.pollReset k m tag).1.panicked = none :=
  ⟨((refReserveCapacity_lt s k cap).run1 h hk).1, ((pollCapacity_lt s k tag).run1 h hk).1,
   ((pollReset_lt s k m tag).run1 h hk).1⟩

example : NPQ wS ∧ Live wS 0 ∧ ((wS.refReserveCapacity 0 100).stream 0).requestedSendCapacity = 100 :=
  ⟨wS_npq, wS_live, by decide⟩

/-- **The implicit reset of a dropped stream cannot panic**: `maybe_cancel` → `schedule_implicit_reset` →
    `reclaim_reserved_capacity`, whose `expect("window size should be greater than reserved")` is dead:
    the reserved amount `available − buffered` (computed in `u32`) is positive and at most `available`,
    which is an `i32`, so `claim_capacity` cannot leave the `i32` range. -/
theorem implicit_reset_cannot_panic {s : Streams} (h : NPQ s) {k : Nat} (hk : Live s k) :
    (s.maybeCancel k).panicked = none ∧ NPQ (s.maybeCancel k) :=
  (maybeCancel_lt s k).run1 h hk

/-- non-vacuity: the last handle of an open stream is gone → CANCEL scheduled -/
example : let s := wS.modStream 0 fun st => { st with refCount := 0 }
    ((s.maybeCancel 0).stream 0).state.getScheduledReset = some CANCEL := by decide

/-- **`Recv::recv_headers` cannot panic — the counting asserts of `inc_num_recv_streams` included**
    (positive statement for finding F31: before the repair a server that promised more streams than the
    client's `max_concurrent_streams` and then opened them made the client panic in
    `assert!(self.can_inc_num_recv_streams())`; `recv_headers` now refuses the stream when the limit
    is reached).  For every HEADERS frame, every live stream, every good state: neither
    `assert!(self.can_inc_num_recv_streams())` nor `assert!(!stream.is_counted)` fires — both are
    tested by `recv_headers` itself right before the call and nothing in between touches the counters. -/
theorem recv_headers_cannot_panic {s : Streams} (h : NPQ s) {k : Nat} (hk : Live s k) (hd : HeadersIn) :
    (s.recvRecvHeaders k hd).1.panicked = none ∧ NPQ (s.recvRecvHeaders k hd).1 :=
  (recvRecvHeaders_lt s k hd).run1 h hk

/-- non-vacuity, on the F31 witness shape: a reserved (promised) stream while the receive limit is reached:
    the response HEADERS is refused with a stream error instead of counted -/
example : let x : Stream := { key := 0, id := 2, state := { inner := .reservedRemote } }
    let s : Streams := { counts := { maxRecvStreams := 1, numRecvStreams := 1 }, store := { slab := [x], ids := [(2, 0)], nextKey := 1 } }
    (s.recvRecvHeaders 0 { sid := 2, eos := false, status := some [50, 48, 48] }).1.panicked = none ∧
    (s.recvRecvHeaders 0 { sid := 2, eos := false, status := some [50, 48, 48] }).1.counts.numRecvStreams = 1 := by decide

/-- **`Recv::recv_data` cannot panic** for a frame whose flow-controlled length is a legal frame length
    (`≤ MAX_WINDOW_SIZE`; a frame is at most 2^24 octets): the two `FlowControl::send_data` asserts
    (`window_size >= sz`) are dead — `recv_data` / `consume_connection_window` test `window_size() < sz`
    first and nothing in between touches the window. -/
theorem recv_data_cannot_panic {s : Streams} (h : NPQ s) {k : Nat} (hk : Live s k) (payload : Bytes) (eos : Bool)
    (pad : Option Nat)
    (hlen : payload.length + (match pad with | some p => p + 1 | none => 0) ≤ Generated.Consts.MAX_WINDOW_SIZE) :
    (s.recvRecvData k payload eos pad).1.panicked = none ∧ NPQ (s.recvRecvData k payload eos pad).1 :=
  (recvRecvData_lt s k payload eos pad hlen).run1 h hk

/-- non-vacuity: DATA on an open stream with receive window -/
example : let fl : FlowControl := { windowSize := { val := 65535 }, available := { val := 65535 } }
    let x : Stream := { key := 0, id := 1, state := { inner := .open .streaming .streaming }, recvFlow := fl }
    let s : Streams := { actions := { recv := { flow := fl } }, store := { slab := [x], ids := [(1, 0)], nextKey := 1 } }
    ((s.recvRecvData 0 [1, 2, 3] false none).1.stream 0).pendingRecv = [.data [1, 2, 3] true] := by decide

/-- the `assert!` inside `FlowControl::send_data` is dead behind the caller's window check, for every
    window and every size (all of `u32`, including sizes with the top bit set) -/
theorem window_assert_dead_behind_check (f : FlowControl) (sz : Nat) (h : ¬ f.windowSz < sz) :
    (f.sendData sz).2 ≠ .error .assertFailed :=
  sendData_no_assert' f sz h

example : ¬ ({ windowSize := { val := 10 }, available := { val := 10 } } : FlowControl).windowSz < 10 := by decide

/-- **RST_STREAM from the peer, errors, EOF on one stream cannot panic**: `Recv::recv_reset` (the
    `inc_num_remote_reset_streams` assert is guarded by its own `can_inc` test), `Recv::handle_error`,
    `Recv::recv_eof`, `Send::handle_error`, `Recv::enqueue_reset_expiration` (guarded likewise). -/
theorem stream_teardown_cannot_panic {s : Streams} (h : NPQ s) {k : Nat} (hk : Live s k) (r : Reason) (e : PErr) :
    (s.recvRecvReset k r).1.panicked = none ∧ (s.recvHandleError k e).panicked = none ∧
    (s.recvRecvEof k).panicked = none ∧ (s.sendHandleError k).panicked = none ∧
    (s.enqueueResetExpiration k).panicked = none :=
  ⟨((recvRecvReset_lt s k r).run1 h hk).1, ((recvHandleError_lt s k e).run1 h hk).1, ((recvRecvEof_lt s k).run1 h hk).1,
   ((sendHandleError_lt s k).run1 h hk).1, ((enqueueResetExpiration_lt s k).run1 h hk).1⟩

example : NPQ wS ∧ Live wS 0 ∧ ((wS.recvRecvReset 0 CANCEL).1.stream 0).state.isClosed = true := ⟨wS_npq, wS_live, by decide⟩

/-- **A stream error answered with RST_STREAM cannot panic** (`Actions::reset_on_recv_stream_err`): the
    `inc_num_local_error_resets` assert is guarded by `can_inc_num_local_error_resets`, the reset itself is
    `send_reset_cannot_panic`. -/
theorem stream_error_reset_cannot_panic {s : Streams} (h : NPQ s) {k : Nat} (hk : Live s k) (res : Except PErr Unit) :
    (s.resetOnRecvStreamErr k res).1.panicked = none ∧ NPQ (s.resetOnRecvStreamErr k res).1 :=
  (resetOnRecvStreamErr_ltw s k res).run1 h hk

example : NPQ wS ∧ Live wS 0 ∧
    ((wS.resetOnRecvStreamErr 0 (.error (.reset 1 PROTOCOL_ERROR .library))).1.stream 0).pendingSend = [.reset PROTOCOL_ERROR] :=
  ⟨wS_npq, wS_live, by decide⟩

/-- **WINDOW_UPDATE cannot panic**: connection level (`assign_connection_capacity` pops only live keys and
    its `transition` never releases a stream) and stream level (including the FLOW_CONTROL_ERROR reset). -/
theorem window_update_cannot_panic {s : Streams} (h : NPQ s) {k : Nat} (hk : Live s k) (inc : Nat) :
    (s.recvConnectionWindowUpdate inc).1.panicked = none ∧ (s.sendRecvStreamWindowUpdate k inc).1.panicked = none :=
  ⟨((recvConnectionWindowUpdate_lt s inc).run0 h).1, ((sendRecvStreamWindowUpdate_lt s k inc).run1 h hk).1⟩

example : NPQ wS ∧ Live wS 0 ∧ ((wS.sendRecvStreamWindowUpdate 0 5).1.stream 0).sendFlow.windowSize.val = 65540 :=
  ⟨wS_npq, wS_live, by decide⟩

/-- **The receive-side handle calls cannot panic**: `poll_data`, `poll_trailers`, `poll_informational`,
    `release_capacity`, `clear_recv_buffer` (`Drop for RecvStream`). -/
theorem recv_handles_cannot_panic {s : Streams} (h : NPQ s) {k : Nat} (hk : Live s k) (tag : String) (cap : Nat) :
    (s.refPollData k tag).1.panicked = none ∧ (s.recvPollTrailers k tag).1.panicked = none ∧
    (s.recvPollInformational k tag).1.panicked = none ∧ (s.refReleaseCapacity k cap).1.panicked = none ∧
    (s.refClearRecvBuffer k).panicked = none :=
  ⟨((refPollData_lt s k tag).run1 h hk).1, ((recvPollTrailers_lt s k tag).run1 h hk).1,
   ((recvPollInformational_lt s k tag).run1 h hk).1, ((refReleaseCapacity_lt s k cap).run1 h hk).1,
   ((refClearRecvBuffer_lt s k).run1 h hk).1⟩

example : NPQ wS ∧ Live wS 0 ∧ (wS.refPollData 0 "b").1.panicked = none := ⟨wS_npq, wS_live, by decide⟩

-- ===================================================================== all reachable states

/-- **No panic in any reachable state of the stream layer** (partial: the operations listed below; full
    statement wanted: every operation of `Connection::poll` and of every handle).
    `Reach s`: `s` is obtained from a blank stream layer (empty store, zero counters, any configuration, either role) by any
    finite sequence, in any order and with arbitrary arguments, of: the frame entry points `recv_headers`, `recv_data`,
    `recv_reset`, `recv_window_update`, `Inner::send_reset` (stream errors found by `poll`), `Recv::go_away`; the connection events
    `handle_error` (connection error), `recv_go_away` (GOAWAY frame), `recv_eof`, `apply_remote_settings`,
    `apply_local_settings`, `clear_expired_reset_streams`; and the
    handle calls `send_request`, `poll_ready`, clone/drop of `SendRequest`, clone and drop of a stream handle,
    `send_response`, `send_informational`, `send_data`, `send_trailers`, `send_reset`, `reserve_capacity`,
    `poll_capacity`, `poll_reset`, `poll_data`, `poll_trailers`, `poll_informational`, `release_capacity`,
    `Drop for RecvStream`.  Preconditions of the steps (`Step`): a handle call names a live slab entry (a handle keeps its
    stream alive: `H2V.Props.C08.referenced_stream_is_never_released`), `drop` needs `ref_count > 0` and no promised
    streams left on the stream (`dropPPP`), a DATA frame has a legal length, `recv_headers` is not called while a refusal is
    pending (`Connection::poll` sends it first), `Recv::go_away` is called with an id below `max_stream_id`
    (`H2V.Props.C15.goaway_invariant_in_every_reachable_state`), and the next stream id is not yet in the id map.
    Hypothesis `ErrOK s`: fewer than `max_local_error_reset_streams` (default 1024) library-initiated resets so far —
    inherited from `H2V.Props.C05.slots_are_accounted_per_direction`, needed for the two per-direction asserts of
    `dec_num_streams`.
    Conclusion: NONE of the panic sites of the stream layer has fired: no `assert!` of counts.rs (`inc_num_*`,
    `dec_num_streams`, the reset counters), no `FlowControl::send_data` assert on the receive side, no
    `send_close: unexpected state`, no `expect("window size should be greater than reserved")`,
    no `assert!(stream.state.is_closed())`, no "Initiator::User should not error", no `Store::insert` assert, and no
    dangling `store::Key` (`store.resolve` / `Index<Key>` panics) — whether the key came from a handle, from
    `find_mut(id)`, or from the `pending_capacity` queue.
    `recv_eof(true)` (only when the connection is dropped) additionally assumes `AccOK` (`pending_accept` holds live, flagged,
    pairwise distinct keys).
    NOT covered yet (see ConnNoPanicPNOTES.md): `poll_complete` (`pop_frame`, `reclaim_frame`), PUSH_PROMISE,
    `next_incoming`/`take_request`, `poll_response`, `set_target_window_size`. -/
theorem no_panic_in_any_reachable_state_partial {s : Streams} (h : Reach s) (he : H2V.Lemmas.ConnCountsP.ErrOK s) :
    s.panicked = none :=
  (reach_npi h he).np

/-- non-vacuity: request sent, response head and DATA received, DATA sent, stream reset by the user -/
example : Reach wR5 ∧ H2V.Lemmas.ConnCountsP.ErrOK wR5 ∧ (wR5.stream 0).state.isClosed = true :=
  ⟨wR5_reach, wR5_facts.1, wR5_facts.2.1⟩

/-- **No panic in any history that respects the handle discipline** (partial in the same sense as the previous
    theorem: same operations).  `HReach s H`: a history of operations (ConnResetP's `Op`: every call the connection and the
    handles make on the stream layer, arbitrary arguments, any order) starting from a blank stream layer, where `H` is the
    multiset of stream handles the application holds: `send_request` adds the key it returns, `clone` adds, `drop`
    removes, and a handle call is only made through a handle in `H`.  This replaces the hypotheses "the key is live" and
    "`ref_count > 0`" of the previous theorem by what the API guarantees.  Conclusion: no panic site has fired —
    in particular `assert!(self.ref_count > 0)` in `drop_stream_ref` and every `store.resolve(key)` behind a handle —
    and every handle in `H` names a live slab entry whose `ref_count` is at least the number of handles held on it
    (`HOK`).  Remaining preconditions per operation: `opPre` (see the previous theorem). -/
theorem no_panic_under_handle_discipline_partial {s : Streams} {H : List Nat} (h : HReach s H)
    (he : H2V.Lemmas.ConnCountsP.ErrOK s) : s.panicked = none ∧ HOK s H :=
  ⟨(hreach_npi h he).1.np, (hreach_npi h he).2⟩

/-- non-vacuity: request, response head, DATA in, DATA out, handle cloned, both handles dropped, EOF: everything released -/
example : HReach (H2V.Lemmas.ConnResetP.run wBlank wOps) [] ∧ H2V.Lemmas.ConnCountsP.ErrOK (H2V.Lemmas.ConnResetP.run wBlank wOps) ∧
    (H2V.Lemmas.ConnResetP.run wBlank wOps).store.slab.length = 0 :=
  ⟨wOps_hreach, wOps_facts.1, wOps_facts.2.2⟩

/-- **No panic, 35 operations, fewer preconditions** (partial; supersedes the two theorems above where it applies).
    `AReach s H`: as `HReach`, starting from the stream layer of a new connection (`Init2`: empty store, both connection
    windows 65 535), with three more operations (`set_target_window_size`, the server's `push_request`, and
    `send_request` WITHOUT the precondition "next stream id not in the id map") and with the bounds the frame decoder
    guarantees as argument preconditions (WINDOW_UPDATE increment and SETTINGS_INITIAL_WINDOW_SIZE ≤ 2^31-1:
    `H2V.Props.C02.decoder_delivers_31_bit_values`).  Conclusion `Good s H`: no panic site has fired; the handles are
    accounted (`HOK`); every locally initiated slab entry has an id below `next_stream_id` (`IBS` — this is what makes
    `assert!(self.ids.insert(id, index).is_none())` of `Store::insert` dead in `send_request` and `push_request`);
    ConnRecvP's connection-level receive-window invariant (which makes `Window::checked_size`'s "negative Window" assert
    dead in `set_target_window_size`) and ConnFlowP's send-side `SafeInv` hold. -/
theorem no_panic_35_operations_partial {s : Streams} {H : List Nat} (h : AReach s H)
    (he : H2V.Lemmas.ConnCountsP.ErrOK s) : s.panicked = none ∧ Good s H :=
  ⟨(areach_good h he).npi.np, areach_good h he⟩

/-- non-vacuity: request, response head, DATA both ways, connection window raised, clone, two drops, EOF -/
example : AReach (H2V.Lemmas.ConnResetP.run wInit wOps2) [] ∧ H2V.Lemmas.ConnCountsP.ErrOK (H2V.Lemmas.ConnResetP.run wInit wOps2) ∧
    (H2V.Lemmas.ConnResetP.run wInit wOps2).store.slab.length = 0 :=
  ⟨wOps2_areach, wOps2_facts.1, wOps2_facts.2⟩

/-- **No panic on a connection without server push, 37 operations** (partial: five operations are still missing, see
    NOTES).  `BReach s H`: as `AReach`, for a connection that never accepts a PUSH_PROMISE (`NoPush`: every server, and every
    client that announced SETTINGS_ENABLE_PUSH = 0 — nobody writes `recv.is_push_enabled` after the constructor).  There every
    `pending_push_promises` list stays empty (`NoPPP`), so (a) dropping a handle needs NO hypothesis any more (the
    `dropPPP s k = []` of the theorems above is discharged), and (b) a PUSH_PROMISE frame from the peer, with any
    arguments, is answered by a connection error and leaves the stream layer literally unchanged. -/
theorem no_panic_without_server_push_partial {s : Streams} {H : List Nat} (h : BReach s H)
    (he : H2V.Lemmas.ConnCountsP.ErrOK s) : s.panicked = none ∧ Good3 s H :=
  ⟨(breach_good h he).good.npi.np, breach_good h he⟩

/-- non-vacuity: request, a PUSH_PROMISE (refused), response head, DATA, clone, two drops, EOF: everything released -/
example : BReach (H2V.Lemmas.ConnResetP.run wInit3 wOps3) [] ∧ H2V.Lemmas.ConnCountsP.ErrOK (H2V.Lemmas.ConnResetP.run wInit3 wOps3) ∧
    (H2V.Lemmas.ConnResetP.run wInit3 wOps3).store.slab.length = 0 :=
  ⟨wOps3_breach, wOps3_facts.1, wOps3_facts.2⟩

/-- **`poll_pushed` cannot panic there** (`.expect("Headers not set on pushed stream")`, the site added with repair F32):
    through any held handle it finds nothing to take, keeps the invariant and never hands out a new handle. -/
theorem poll_pushed_cannot_panic_without_push {s : Streams} {H : List Nat} (h : BReach s H)
    (he : H2V.Lemmas.ConnCountsP.ErrOK s) {k : Nat} (hk : k ∈ H) (t : String) :
    (s.refPollPushed k t).1.panicked = none ∧ NPI (fun _ => False) (s.refPollPushed k t).1 ∧
    ∀ c m u f, (s.refPollPushed k t).2 ≠ .pushed c m u f :=
  ⟨(refPollPushed_good3 (breach_good h he) hk t).1, (refPollPushed_good3 (breach_good h he) hk t).2.1,
   (refPollPushed_good3 (breach_good h he) hk t).2.2.2.2⟩

/-- non-vacuity: after `send_request` the application holds the handle with key 0 -/
example : BReach (H2V.Lemmas.ConnResetP.run wInit3 [.sendRequest false [] false none]) [0] ∧
    H2V.Lemmas.ConnCountsP.ErrOK (H2V.Lemmas.ConnResetP.run wInit3 [.sendRequest false [] false none]) ∧ 0 ∈ [0] :=
  ⟨wOps3a_breach, wOps3a_facts, List.mem_singleton.mpr rfl⟩

/-- **No panic on a connection without server push, 40 operations** (partial: `poll_complete`, `send_pending_refusal` and
    `poll_response` are still missing here, see NOTES).  `NReach s H`: as `BReach`, with the server accept path
    (`next_incoming` — it adds the handle it returns to `H` —, `take_request`), `clearWakes`, and `recv_eof(true)` WITHOUT
    hypothesis.  New in the invariant (`Good4`): np-acc's `J` — every stream queued in `pending_accept` has no handle yet,
    its receive queue starts with the request head, and the number of queued streams the peer has reset is at most
    `num_remote_reset_streams` (so `assert!(self.num_remote_reset_streams > 0)` of `dec_num_remote_reset_streams` is dead in
    `next_incoming`) — and ConnRecvP's stream-level receive-window invariant `JF`.  Preconditions that are new:
    `take_request k` needs the request head still in place (`ReqHead`; `nreach_accept`: it is, right after `next_incoming`,
    which is the only way server.rs calls it); `handle_error` is not called with `Error::Reset(_, _, Remote)` (connection.rs
    never does; see the counterexample below); an acknowledged local SETTINGS frame could be applied (answer `Ok`). -/
theorem no_panic_without_server_push_40_partial {s : Streams} {H : List Nat} (h : NReach s H)
    (he : H2V.Lemmas.ConnCountsP.ErrOK s) : s.panicked = none ∧ Good4 s H :=
  ⟨(nreach_good h he).g3.good.npi.np, nreach_good h he⟩

/-- non-vacuity: a server receives `GET /`, accepts it (`next_incoming`, `take_request`), answers with END_STREAM, drops the
    handle, EOF with `clear_pending_accept` -/
example : NReach (H2V.Lemmas.ConnResetP.run wInitS wOpsS) [] ∧ H2V.Lemmas.ConnCountsP.ErrOK (H2V.Lemmas.ConnResetP.run wInitS wOpsS) ∧
    (H2V.Lemmas.ConnResetP.run wInitS wOpsS).panicked = none :=
  ⟨wOpsS_nreach, wOpsS_facts.1, wOpsS_facts.2⟩

/-- **The server accept path cannot panic**: in every such state `next_incoming` keeps the invariant, and when it returns a
    stream, `take_request` on it finds the request head (`unreachable!("server stream queue must start with Headers")` is dead). -/
theorem server_accept_path_cannot_panic {s : Streams} {H : List Nat} (h : NReach s H)
    (he : H2V.Lemmas.ConnCountsP.ErrOK s) :
    s.nextIncoming.1.panicked = none ∧
    ∀ k, s.nextIncoming.2 = some k → ((s.nextIncoming.1).recvTakeRequest k).1.panicked = none ∧
      ((s.nextIncoming.1).recvTakeRequest k).2.isSome = true :=
  nreach_accept_path h he

/-- non-vacuity: after the request has arrived (a reachable state) `next_incoming` returns key 0 -/
example : NReach (H2V.Lemmas.ConnResetP.run wInitS [.recvHeaders cxReq]) [] ∧
    H2V.Lemmas.ConnCountsP.ErrOK (H2V.Lemmas.ConnResetP.run wInitS [.recvHeaders cxReq]) ∧
    (H2V.Lemmas.ConnResetP.run wInitS [.recvHeaders cxReq]).nextIncoming.2 = some 0 :=
  ⟨wOpsS1_nreach, wOpsS1_facts.1, wOpsS1_facts.2⟩

/-- **Model-only observation** (not a defect of h2; recorded as the precondition `NotRR` above): with an arbitrary error
    argument, `Streams::handle_error(Error::Reset(1, NO_ERROR, Initiator::Remote))` marks a queued stream "reset by the
    peer" without counting it, and the next `next_incoming` fires `assert!(self.num_remote_reset_streams > 0)`.
    connection.rs passes only GOAWAY / I/O / user errors to `handle_error` (np-conn proves this for the model's
    `ConnProto`: `ConnP`), and with a GOAWAY error the same history is fine. -/
theorem handle_error_with_remote_reset_counterexample :
    (H2V.Lemmas.ConnResetP.run cxInit cxOps).panicked = some "assertion failed: self.num_remote_reset_streams > 0" ∧
    (H2V.Lemmas.ConnResetP.run cxInit [.recvHeaders cxReq, .handleError (.goAway [] 0 .remote), .nextIncoming]).panicked = none :=
  handleError_remoteReset_counterexample

/-- **No panic in the stream layer but the model's own fuel markers — all operations, with the write path, NO residual
    hypothesis** (partial only in the class: no accepted server push, no `push_request`).
    `WReach NoPushReq RT s w H T`: histories of (stream layer `s`, the codec's writer `w`, handles held `H`, response futures
    that have not returned yet `T`) from the stream layer of a new connection and an empty writer: every constructor of
    ConnResetP's `Op` outside the write path except `push_request` (arbitrary arguments, any order; `opPre5`),
    `Streams::poll_complete` and `send_pending_refusal` run against the CURRENT writer (any fuel, any transport state), the
    connection's own writer steps (`WStep`: control frames, `poll_ready`, `flush`, `shutdown`, the two peer settings), and
    the two fuel markers of the connection model.  Conclusion: either no panic site has fired and the invariant bundle
    `GoodW` holds, or the recorded message is one of the model's four out-of-fuel markers (`FuelAll`; the Rust loops have no
    fuel; a recorded message is never overwritten: `op_sticky`).  So every `assert!`/`expect`/`unwrap`/`unreachable!`/
    dangling-key site of streams.rs, recv.rs, send.rs, prioritize.rs, counts.rs, store.rs and flow_control.rs that the model
    records is dead — including `pop_frame`'s two `FlowControl::send_data` asserts, `reclaim_frame`,
    `assert!(!stream.is_counted)` of `inc_num_send_streams`, `.expect("unexpected flow control state")`, and
    "poll_response called after response returned".
    Preconditions (`opPre5`; all are argument / API-discipline conditions except `refused`, `max_stream_id`, `ReqHead`,
    which the connection layer / the accept path guarantee: next theorems):
    * frames: `s.recv.refused = none` at HEADERS (the connection sends the refusal first), `max_stream_id ≥ id` at
      `Recv::go_away` (ConnCtlP), DATA length ≤ 2^31-1, WINDOW_UPDATE increment and SETTINGS_INITIAL_WINDOW_SIZE ≤ 2^31-1
      (decoder), `handle_error` not with `Reset(_, _, Remote)`, an acknowledged local SETTINGS frame answers `Ok`;
    * handles: a call only through a held handle (`opKey3`); `take_request` while the request head is in place and not on
      a client stream awaiting its response; `poll_response` only until it has returned the response (`T`);
      `send_informational` only on the handle of a PEER-initiated stream (the type `SendResponse`; counterexamples
      below); `send_data` with `buffered + len < 2^64`; `set_target_window_size ≤ 2^31-1`;
    * `ErrOK s`: the quota of library-initiated resets is not exhausted (NOTES §5).
    The invariant includes np-ds's `OXs` (a locally initiated entry whose send half is unopened carries nothing; a stream
    waiting in `pending_open` is never scheduled and its front frame is not DATA, or it is closed without DATA — what
    `Send::send_reset`'s pending_open branch needs) and np-fi's `NoPPQ` (no PUSH_PROMISE frame is queued). -/
theorem no_panic_stream_layer_with_write_path_partial {s : Streams} {w : Writer} {H T : List Nat}
    (h : WReach NoPushReq RT s w H T) (he : H2V.Lemmas.ConnCountsP.ErrOK s) :
    (s.panicked = none ∧ GoodW (fun s => OXs s ∧ NoPPQ s) s w H T) ∨ ∃ m, s.panicked = some m ∧ FuelAll m :=
  wreach_final h he

/-- non-vacuity: a client sends a request, `poll_complete` writes it, the response arrives, the response future returns it, the
    handle is dropped, `poll_complete`, EOF: nothing panicked, everything released -/
example : WReach NoPushReq RT wS5 wP2.2.1 [] [] ∧ H2V.Lemmas.ConnCountsP.ErrOK wS5 ∧ wS5.panicked = none ∧ wS5.store.slab.length = 0 :=
  ⟨wS5_wreach, wS5_facts.1, wS5_facts.2.1, wS5_facts.2.2⟩

/-- **The same with `push_request`** (server push used by the application): one residual STATE hypothesis — `OXs` in the
    state after each `poll_complete` (only there; `WReach AllOps OXs`).  `OXs` is proved invariant for every operation
    (`push_request` included) except `poll_complete` when PUSH_PROMISE frames are queued: open is `ppActivate` →
    `queue_open` on the entry that `Inner::send_reset` re-creates for a forgotten promised id when the send-stream limit is
    reached (NOTES §5).  Typing precondition in addition: `push_request` only on the handle of a peer-initiated stream. -/
theorem no_panic_stream_layer_with_push_request_partial {s : Streams} {w : Writer} {H T : List Nat}
    (h : WReach AllOps OXs s w H T) (he : H2V.Lemmas.ConnCountsP.ErrOK s) :
    (s.panicked = none ∧ GoodW OXs s w H T) ∨ ∃ m, s.panicked = some m ∧ FuelAll m :=
  wreach_residual h he

/-- non-vacuity: the relation contains the initial states (its other constructors are those of the previous theorem, with a
    promise after `poll_complete`) -/
example : WReach AllOps OXs wInit3 {} [] [] := .init wInit3_init2 wInit3_nopush rfl rfl

/-- **Model-only observation** (typing precondition `fiPre`; not reachable through h2's public API): informational
    headers sent through the handle of a PUSHED stream (`SendPushedResponse` has no `send_informational`) let the promised
    stream be counted when its PUSH_PROMISE is written and again queued in `pending_open` by `send_response`; the next
    `poll_complete` fires `assert!(!stream.is_counted)`. -/
theorem informational_on_pushed_handle_counterexample :
    (H2V.Lemmas.ConnResetP.run fiS0 (fiOps.take 7)).panicked = none ∧
    ((H2V.Lemmas.ConnResetP.run fiS0 (fiOps.take 7)).stream 1).isCounted = true ∧
    ((H2V.Lemmas.ConnResetP.run fiS0 (fiOps.take 7)).stream 1).isPendingOpen = true ∧
    (H2V.Lemmas.ConnResetP.run fiS0 fiOps).panicked = some "assertion failed: !stream.is_counted" :=
  fi_untyped_counterexample

/-- **Model-only observation** (same typing violation): afterwards a pushed stream can wait in `pending_open` with
    `pending_send = [DATA(10), RST_STREAM]` and `buffered_send_data = 0` — `OH` and the accounting invariant `DSum` fail
    (in the Rust the next `pop_frame` would underflow `buffered_send_data` in a debug build). -/
theorem pending_open_with_data_front_counterexample :
    (H2V.Lemmas.ConnResetP.run ohInit ohOps).panicked = none ∧ ¬ DSum (H2V.Lemmas.ConnResetP.run ohInit ohOps) :=
  ⟨oh_counterexample.1, oh_counterexample_not_dsum⟩

/-- **The connection layer adds no panic and calls the stream layer only within its preconditions**: in every
    reachable connection `CReach A c H T` — a new client (`Conn.init`, ENABLE_PUSH = 0) or server (`Conn.initServer`)
    connection with a legal configuration (`CfgOK`: max_frame_size ≤ 2^24-1, `CwsOK`: connection window ≤ 2^31-1, both
    asserted by the real builder; SETTINGS_INITIAL_WINDOW_SIZE left at its default), then any sequence of: `poll`
    (`protoPoll` / the client's `clientPoll`, any fuel), `set_target_window_size`, graceful and abrupt shutdown, the PING
    handle, every handle call of the application (`isHandleOp`, preconditions `opPre5`, restriction `A`), dropping the
    `Connection` object (`recv_eof(true)`; the handles live on), and the environment (transport input/output state, waker,
    wake-ups) — the connection invariant `ConnOK` holds (ConnCtlP's GOAWAY
    invariant, the shutdown-PING invariant, the decoder bounds: under it none of the SEVEN `Conn.panic` asserts of ConnProto
    can fire — np-conn), and the stream layer together with the codec's writer is in a state of the final stream-layer
    relation `WReach` with NO residual promise (`RT`): whatever octets the peer sends, every call the connection makes on
    the stream layer satisfies the preconditions of the stream-layer theorem (`refused = none` at HEADERS, `max_stream_id ≥ id`,
    frame bounds from the decoder, `handle_error` only with GOAWAY / I/O errors, …), and `poll_complete` always runs
    against the connection's own writer. -/
theorem reachable_connection_is_a_stream_layer_history {A : H2V.Lemmas.ConnResetP.Op → Prop} (hA : ∀ s o, ConnP' s o → A o) {c : Conn} {H T : List Nat}
    (h : CReach A c H T) : ConnOK c ∧ WReach A RT c.streams c.codec.w H T :=
  ⟨(creach_wreach hA h).1, (creach_wreach hA h).2.2⟩

/-- non-vacuity: a new client connection, polled, a request sent through `SendRequest`, polled again: one stream, no panic;
    and the connection layer itself never calls `push_request` -/
example : (∃ H T, CReach NoPushReq wC3 H T) ∧ H2V.Lemmas.ConnCountsP.ErrOK wC3.streams ∧ wC3.streams.panicked = none ∧
    wC3.streams.store.slab.length = 1 ∧ (∀ s o, ConnP' s o → NoPushReq o) :=
  ⟨wC3_creach, wC3_facts.1, wC3_facts.2.1, wC3_facts.2.2, connP'_noPushReq⟩

/-- **NO ENDPOINT PANIC IN ANY REACHABLE CONNECTION** (the general theorem of C08; partial only in the class of
    connections): for every connection reachable as in the previous theorem whose application does not call `push_request`
    (`NoPushReq`: every client; every server that does not use server push) — whatever the peer sends, however the
    transport chops reads and writes, whatever (API-conforming) calls the application makes in whatever order — either
    nothing has panicked: none of the connection layer's asserts, no `assert!` / `expect` / `unwrap` / `unreachable!` /
    dangling `store::Key` of the stream layer, and all invariants hold (`ConnOK`, `GoodW`); or the recorded message is one
    of the MODEL's out-of-fuel markers (`FuelAll`: the model's loops carry fuel, the Rust loops do not).
    No open lemma, no residual state hypothesis.  Class restrictions: the endpoint does not accept server push (servers;
    clients with ENABLE_PUSH = 0), does not call `push_request`, leaves SETTINGS_INITIAL_WINDOW_SIZE at its default and does
    not call `set_initial_window_size`; `ErrOK`: the quota of library-initiated resets (default 1024) is not exhausted. -/
theorem no_panic_in_any_reachable_connection_partial {c : Conn} {H T : List Nat} (h : CReach NoPushReq c H T)
    (he : H2V.Lemmas.ConnCountsP.ErrOK c.streams) :
    (c.streams.panicked = none ∧ ConnOK c ∧ GoodW (fun s => OXs s ∧ NoPPQ s) c.streams c.codec.w H T) ∨
    ∃ m, c.streams.panicked = some m ∧ FuelAll m :=
  creach_good_final h he

/-- non-vacuity: the witness connection of the previous example is in the class -/
example : (∃ H T, CReach NoPushReq wC3 H T) ∧ H2V.Lemmas.ConnCountsP.ErrOK wC3.streams := ⟨wC3_creach, wC3_facts.1⟩

/-- **The same for servers that use `push_request`, modulo ONE open lemma** (partial, CONDITIONAL).
    `PcOX`: "`Streams::poll_complete` keeps `OXs`" (in a good, un-panicked state; every other operation is proved to keep
    it, and `poll_complete` itself when no PUSH_PROMISE frame is queued — NOTES §5). -/
-- (`PcOX` is the open lemma and has no proof yet; non-vacuity of `CReach AllOps c H T`: its constructors are those of `CReach NoPushReq`)
theorem no_panic_in_any_reachable_connection_modulo_poll_complete_partial (hpc : PcOX) {c : Conn} {H T : List Nat}
    (h : CReach AllOps c H T) (he : H2V.Lemmas.ConnCountsP.ErrOK c.streams) :
    (c.streams.panicked = none ∧ ConnOK c ∧ GoodW OXs c.streams c.codec.w H T) ∨
    ∃ m, c.streams.panicked = some m ∧ FuelAll m :=
  creach_good_pc hpc h he

/-- **The invariant behind it, in every reachable state**: besides `panicked = none`, (a) `find_mut(id)` hands out
    only keys that resolve, to an entry with that stream id, and the id map is a map (`IdsOK`); (b) the good-state
    conditions `NPQ` that the per-function theorems above assume. -/
theorem id_map_keys_resolve_everywhere {s : Streams} (h : Reach s) (he : H2V.Lemmas.ConnCountsP.ErrOK s) :
    NPQ s ∧ (∀ id k, s.store.findKey? id = some k → Live s k ∧ (s.stream k).id = id) ∧
    (s.store.ids.map (·.1)).Nodup :=
  let n := reach_npi h he
  ⟨n.npq, fun _ _ hf => n.ids.findKey hf, n.ids.nodup⟩

example : Reach wR5 ∧ wR5.store.findKey? 1 = some 0 := ⟨wR5_reach, by decide⟩

/-- **Every covered operation is panic-free from any state satisfying the invariant** (not only from reachable ones:
    the invariant `NPI` is inductive).  `he'`: the quota hypothesis on the state after the call. -/
theorem covered_operations_keep_the_invariant {s s' : Streams} (h : Step s s') (hn : NPI (fun _ => False) s)
    (he' : H2V.Lemmas.ConnCountsP.ErrOK s') : NPI (fun _ => False) s' ∧ s'.panicked = none :=
  ⟨h.npi hn he', (h.npi hn he').np⟩

example : NPI (fun _ => False) wBlank ∧ Step wBlank (wBlank.sendRequest false [] false none).1 :=
  ⟨blank_npi wBlank_blank rfl (fun q => by cases q <;> rfl), .sendRequest _ false [] false none (by intro id h; cases h; rfl)⟩

/-- **The asserts of `Counts::transition_after` / `dec_num_streams` cannot fire** wherever the counting invariants
    hold (`NPI`, e.g. every reachable state) and the transition is the closing half of `counts.transition`
    (`b` = "was pending reset expiration before", so `b → reset_at` still set): `num_local_reset_streams > 0`,
    `stream.is_counted`, `num_send_streams > 0`, `num_recv_streams > 0`; and the result satisfies the invariant
    again (the released entry is unlinked from the id map before it leaves the slab, so no `find_mut` key dangles). -/
theorem transition_after_asserts_hold {s : Streams} (hn : NPI (fun _ => False) s) (he : H2V.Lemmas.ConnCountsP.ErrOK s)
    (k : Nat) (b : Bool) (hb : b = true → (s.stream k).resetAt = true) :
    (s.transitionAfter k b).panicked = none ∧ NPI (fun _ => False) (s.transitionAfter k b) :=
  ⟨(transitionAfter_npi hn he k b hb).np, transitionAfter_npi hn he k b hb⟩

example : NPI (fun _ => False) wR5 ∧ H2V.Lemmas.ConnCountsP.ErrOK wR5 ∧ (wR5.stream 0).resetAt = true :=
  ⟨reach_npi wR5_reach wR5_facts.1, wR5_facts.1, by decide⟩

/-- **`assert!(stream.state.is_closed())` in `Inner::recv_reset` is dead, `StreamRef::send_reset` never takes its
    `panic!("Initiator::User should not error sending reset")` branch** — both as part of: RST_STREAM from the peer and
    a reset by the user keep the invariant from any state satisfying it. -/
theorem resets_keep_the_invariant {s : Streams} (hn : NPI (fun _ => False) s) (he : H2V.Lemmas.ConnCountsP.ErrOK s)
    (id : Nat) (r : Reason) {k : Nat} (hk : Live s k) :
    (s.recvReset id r).1.panicked = none ∧ (s.refSendReset k r).panicked = none :=
  ⟨(recvReset_npi hn id r he).np, (refSendReset_npi hn hk r he).np⟩

example : NPI (fun _ => False) wR4 ∧ Live wR4 0 :=
  ⟨reach_npi (by
      have r0 : Reach wBlank := .init wBlank_blank rfl (fun q => by cases q <;> rfl)
      have r1 : Reach wR1 := .step r0 (.sendRequest _ false [] false none (by intro id h; cases h; rfl))
      have r2 : Reach wR2 := .step r1 (.recvHeaders _ _ (by decide))
      have r3 : Reach wR3 := .step r2 (.recvData _ 1 [1, 2, 3] false none (by unfold FrameLenOK; decide))
      exact .step r3 (.refSendData _ 0 (live_of_isSome (by decide)) 10 false)) (by unfold H2V.Lemmas.ConnCountsP.ErrOK; decide),
   live_of_isSome (by decide)⟩

/-- **The remaining silent loops terminate** (complements `H2V.Props.C08.clear_queue_loops_terminate`): in the model every
    loop carries fuel; for `Store::try_for_each` (both variants: `handle_error`, `recv_go_away`, `recv_eof`, the two
    SETTINGS_INITIAL_WINDOW_SIZE walks) `len - i + 1` units suffice — each round moves the index forward or shortens the
    range — and for `Recv::send_stream_window_updates` `pending_window_updates.len() + 1`; with that much fuel the result no
    longer depends on the fuel.  The callers pass `2·len + 1` resp. `len + 1`. -/
theorem remaining_silent_loops_terminate :
    (∀ (f : Streams → Nat → Streams × Option PErr) (n m i len : Nat) (s : Streams), len - i < n → len - i < m →
      Streams.tryForEach f n i len s = Streams.tryForEach f m i len s) ∧
    (∀ (f : Nat → Streams → Nat → Streams × Nat × Option PErr) (n m i len acc : Nat) (s : Streams), len - i < n → len - i < m →
      Streams.tryForEachAcc f n i len acc s = Streams.tryForEachAcc f m i len acc s) ∧
    (∀ (n m : Nat) (s : Streams) (w : Writer), s.recv.pendingWindowUpdates.length < n → s.recv.pendingWindowUpdates.length < m →
      Streams.sendStreamWindowUpdates n s w = Streams.sendStreamWindowUpdates m s w) :=
  ⟨tryForEach_fuel, tryForEachAcc_fuel, sendStreamWindowUpdates_fuel⟩

/-- the fuel `Store::try_for_each` passes is on the safe side -/
example (s : Streams) : s.store.ids.length - 0 < 2 * s.store.ids.length + 1 := storeTryForEach_fuel_enough s

end H2V.Props.C08NoPanic

#print axioms H2V.Props.C08NoPanic.send_data_cannot_panic
#print axioms H2V.Props.C08NoPanic.send_trailers_cannot_panic
#print axioms H2V.Props.C08NoPanic.send_reset_cannot_panic
#print axioms H2V.Props.C08NoPanic.capacity_calls_cannot_panic
#print axioms H2V.Props.C08NoPanic.implicit_reset_cannot_panic
#print axioms H2V.Props.C08NoPanic.recv_headers_cannot_panic
#print axioms H2V.Props.C08NoPanic.recv_data_cannot_panic
#print axioms H2V.Props.C08NoPanic.window_assert_dead_behind_check
#print axioms H2V.Props.C08NoPanic.stream_teardown_cannot_panic
#print axioms H2V.Props.C08NoPanic.stream_error_reset_cannot_panic
#print axioms H2V.Props.C08NoPanic.window_update_cannot_panic
#print axioms H2V.Props.C08NoPanic.recv_handles_cannot_panic
#print axioms H2V.Props.C08NoPanic.no_panic_in_any_reachable_state_partial
#print axioms H2V.Props.C08NoPanic.id_map_keys_resolve_everywhere
#print axioms H2V.Props.C08NoPanic.covered_operations_keep_the_invariant
#print axioms H2V.Props.C08NoPanic.transition_after_asserts_hold
#print axioms H2V.Props.C08NoPanic.resets_keep_the_invariant
#print axioms H2V.Props.C08NoPanic.no_panic_under_handle_discipline_partial
#print axioms H2V.Props.C08NoPanic.no_panic_35_operations_partial
#print axioms H2V.Props.C08NoPanic.remaining_silent_loops_terminate
#print axioms H2V.Props.C08NoPanic.no_panic_without_server_push_partial
#print axioms H2V.Props.C08NoPanic.poll_pushed_cannot_panic_without_push
#print axioms H2V.Props.C08NoPanic.no_panic_without_server_push_40_partial
#print axioms H2V.Props.C08NoPanic.server_accept_path_cannot_panic
#print axioms H2V.Props.C08NoPanic.handle_error_with_remote_reset_counterexample
#print axioms H2V.Props.C08NoPanic.no_panic_stream_layer_with_write_path_partial
#print axioms H2V.Props.C08NoPanic.informational_on_pushed_handle_counterexample
#print axioms H2V.Props.C08NoPanic.pending_open_with_data_front_counterexample
#print axioms H2V.Props.C08NoPanic.reachable_connection_is_a_stream_layer_history
#print axioms H2V.Props.C08NoPanic.no_panic_in_any_reachable_connection_modulo_poll_complete_partial
#print axioms H2V.Props.C08NoPanic.no_panic_stream_layer_with_push_request_partial
#print axioms H2V.Props.C08NoPanic.no_panic_in_any_reachable_connection_partial
