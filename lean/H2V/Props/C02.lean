import H2V.Lemmas.ConnFlowPCap
/-
  C02 — never sends more DATA than the peer's stream and connection windows allow.
  Property theorems only (lemmas: `H2V/Lemmas/ConnFlowP*.lean`, notes: `ConnFlowPNOTES.md`).

  Vocabulary (all defined in the lemma files, about the model `H2V/Model/Conn*.lean`):
    * `Reach s`        — `s : Streams` is reachable from a new connection by any sequence of the
                         stream-layer API calls the connection and the user handles make
                         (`ConnFlowPReach.lean`);
    * `SafeInv s`      — the send-side safety invariant (`ConnFlowPInv.lean`); it holds in every
                         reachable state *and between any two model functions inside an API call*
                         (every function of `prioritize.rs`/`send.rs`/`recv.rs`/`streams.rs` preserves it);
    * `sumAv slab`     — Σ over the slab of `stream.send_flow.available` (capacity assigned to streams);
    * `WFr s s1`       — `s1` comes from `s` by steps that change no send window (`ConnFlowPWin.lean`);
    * `Charged s1 s' k len` — from `s1` to `s'` exactly `len` octets were charged to the connection
                         window and to the window and capacity of the stream with store key `k`.
-/
namespace H2V.Props.C02
open H2V H2V.Model H2V.Model.Conn H2V.Lemmas.ConnFlowP

/-- **Send ledger (safety direction), every reachable state.**  The capacity assigned to streams plus
    the capacity the connection still holds never exceeds the connection send window, i.e. the
    credit granted by the peer (65 535 + received WINDOW_UPDATEs − DATA sent, which is what
    `prio.flow.window_size` is); no stream holds negative capacity, a stream that holds capacity
    holds at most its own send window (so a stream whose window SETTINGS made zero or negative holds
    nothing), and every window stays inside `i32`.  Hypotheses: only `Reach s`; WINDOW_UPDATE
    increments and SETTINGS_INITIAL_WINDOW_SIZE are 31-bit values (what the frame decoder delivers). -/
theorem send_ledger_safe {s : Streams} (h : Reach s) :
    sumAv s.store.slab + s.prio.flow.available.val ≤ s.prio.flow.windowSize.val ∧
    0 ≤ s.prio.flow.available.val ∧ s.prio.flow.windowSize.val ≤ 2147483647 ∧
    ∀ x ∈ s.store.slab,
      0 ≤ x.sendFlow.available.val ∧
      (0 < x.sendFlow.available.val → x.sendFlow.available.val ≤ x.sendFlow.windowSize.val) ∧
      -2147483648 ≤ x.sendFlow.windowSize.val ∧ x.sendFlow.windowSize.val ≤ 2147483647 := by
  have hs := h.safe
  exact ⟨by simpa using hs.ledger, hs.a0, hs.whi, fun x hx =>
    ⟨(hs.st x hx).av0, (hs.st x hx).avw, (hs.st x hx).wlo, (hs.st x hx).whi⟩⟩

/-- non-vacuity: the state of a new connection is reachable (and so is everything the API makes of it) -/
example : Reach ({ actions := { send := { prioritize := { flow := flowInit } } } } : Streams) :=
  .init ⟨rfl, rfl⟩

/-- **Every DATA frame `pop_frame` hands out fits the windows at the moment it is cut, and is charged
    exactly.**  `pop_frame` is the only place where DATA leaves the stream layer.  If, from a state
    `s` satisfying the invariant, it returns a DATA frame of `len` octets for the stream with store
    key `fr.key`, then there is the state `s1` at the moment the chunk was cut — reached from `s`
    without any window changing — in which
      * `len ≤ max_len` (the peer's max frame size as the codec passes it),
      * `len ≤` the connection send window,
      * `len ≤` the capacity assigned to the stream, and, unless `len = 0`, `len ≤` the stream's send window,
    and from `s1` to the result exactly `len` is charged to the connection window, the stream window
    and the stream's capacity; nothing else changes (`Charged`). -/
theorem data_frame_within_windows {s s' : Streams} (h : SafeInv s) {fuel maxLen len : Nat} {eos : Bool}
    {fr : DataFrame} (hp : Streams.popFrame fuel s maxLen = (s', some (.data len eos fr))) :
    ∃ s1, WFr s s1 ∧ SafeInv s1 ∧
      len ≤ maxLen ∧
      (len : Int) ≤ s1.prio.flow.windowSize.val ∧
      (len : Int) ≤ (s1.stream fr.key).sendFlow.available.val ∧
      (0 < len → (len : Int) ≤ (s1.stream fr.key).sendFlow.windowSize.val) ∧
      s1.prio.flow.windowSize = s.prio.flow.windowSize ∧
      Charged s1 s' fr.key len := by
  have hspec := popFrame_spec h fuel maxLen
  rw [hp] at hspec
  obtain ⟨s1, hw, hs1, hc, hch⟩ := hspec
  have hcap := hs1.sendCapacity_le fr.key
  have hok := hs1.stream_ok fr.key
  have h1 := hc.le_cap
  have h2 := hc.le_win
  have h0 := hok.av0
  refine ⟨s1, hw, hs1, hc.le_max, ?_, ?_, ?_, hw.1, hch⟩
  · cases hget : s1.store.get? fr.key with
    | none =>
      have hb : s1.stream fr.key = { key := fr.key, id := 0 } := by unfold Streams.stream; rw [hget]; rfl
      rw [hb] at h1
      have : ({ key := fr.key, id := 0 } : Stream).sendFlow.available.asSize = 0 := rfl
      have := hs1.av_le; have := hs1.a0
      omega
    | some st =>
      rw [stream_of_get hget] at h1 h0
      have := hs1.st_le (get?_mem hget).1
      have := hs1.a0
      rw [asSize_eq] at h1
      omega
  · rw [asSize_eq] at h1; omega
  · intro hpos
    have hw' := hok.avw
    rw [asSize_eq] at h1
    have : 0 < (s1.stream fr.key).sendFlow.available.val := by omega
    have := hw' this
    omega

/-- **While a window is zero or negative only zero-length DATA is sent against it.** -/
theorem only_empty_data_on_exhausted_window {s s' : Streams} (h : SafeInv s) {fuel maxLen len : Nat} {eos : Bool}
    {fr : DataFrame} (hp : Streams.popFrame fuel s maxLen = (s', some (.data len eos fr))) :
    ∃ s1, WFr s s1 ∧
      (s1.prio.flow.windowSize.val ≤ 0 → len = 0) ∧
      ((s1.stream fr.key).sendFlow.windowSize.val ≤ 0 → len = 0) := by
  obtain ⟨s1, hw, _, _, h1, _, h3, _, _⟩ := data_frame_within_windows h hp
  refine ⟨s1, hw, fun h0 => by omega, fun h0 => ?_⟩
  by_cases hl : len = 0
  · exact hl
  · have := h3 (by omega); omega

/-- **Windows move only when DATA goes out.**  When `pop_frame` returns anything but a DATA frame
    (HEADERS, RST_STREAM, PUSH_PROMISE, or nothing) no send window has changed. -/
theorem windows_untouched_without_data {s : Streams} (h : SafeInv s) (fuel maxLen : Nat)
    (hne : ∀ len e fr, (Streams.popFrame fuel s maxLen).2 ≠ some (.data len e fr)) :
    WFr s (Streams.popFrame fuel s maxLen).1 := by
  have hspec := popFrame_spec h fuel maxLen
  unfold PopRel at hspec
  split at hspec
  · rename_i heq; exact absurd heq (hne _ _ _)
  · exact hspec

/-- the capacity-moving functions of `prioritize.rs` change no window: the windows are charged by
    DATA, WINDOW_UPDATE and SETTINGS only -/
theorem capacity_moves_keep_windows (s : Streams) (id n : Nat) :
    WFr s (s.tryAssignCapacity id) ∧ WFr s (s.assignConnectionCapacity n) ∧ WFr s (s.reserveCapacity id n) ∧
    WFr s (s.reclaimAllCapacity id) ∧ WFr s (s.reclaimReservedCapacity id) :=
  ⟨(WFr.refl s).tryAssignCapacity id, (WFr.refl s).assignConnectionCapacity n, (WFr.refl s).reserveCapacity id n,
   (WFr.refl s).reclaimAllCapacity id, (WFr.refl s).reclaimReservedCapacity id⟩

/-- the invariant is not an artefact of unreachable intermediate states: it holds *inside* an API
    call too — e.g. after `poll_complete` (all the DATA it wrote), after a WINDOW_UPDATE of 31 bits,
    after SETTINGS with a 31-bit initial window size (up or down, windows may go negative) -/
theorem invariant_preserved_by_the_window_events {s : Streams} (h : SafeInv s) :
    (∀ fuel w io tag, SafeInv (Streams.pollComplete fuel s w io tag).1) ∧
    (∀ id inc, inc ≤ 2147483647 → SafeInv (s.recvWindowUpdate id inc).1) ∧
    (∀ vals b, SettingsOk vals → SafeInv (s.applyRemoteSettings vals b).1) :=
  ⟨fun fuel w io tag => SafeInv.pollComplete fuel h w io tag,
   fun id inc hinc => h.recvWindowUpdate id inc hinc,
   fun vals b hv => h.applyRemoteSettings vals b hv⟩

-- ----------------------------------------------------------------- non-vacuity of `SafeInv` + DATA hypotheses

/-- a concrete state: one open stream (key 0, id 1) with a 10-octet DATA frame queued, 10 octets of
    capacity assigned, stream window 100, connection window 65 535 of which 65 525 unassigned -/
def exState : Streams :=
  { store := { slab := [{ key := 0, id := 1, state := { inner := .open .streaming .streaming },
                          isPendingSend := true, sendFlow := ⟨⟨100⟩, ⟨10⟩⟩, requestedSendCapacity := 10,
                          bufferedSendData := 10, pendingSend := [.data 10 true] }],
               ids := [(1, 0)], nextKey := 1 },
    actions := { send := { prioritize := { pendingSend := [0], flow := ⟨⟨65535⟩, ⟨65525⟩⟩ } } } }

example : SafeInv exState := by
  refine ⟨Int.le_refl _, ⟨by decide, by intro x hx; simp [exState] at hx; subst hx; decide⟩, ?_, by decide, by decide, by decide⟩
  intro x hx
  simp [exState] at hx; subst hx
  exact ⟨by decide, by intro _; decide, by decide, by decide⟩

example : Streams.popFrame 4 exState 16384 =
    ((Streams.popFrame 4 exState 16384).1, some (.data 10 true { key := 0, sid := 1, rest := 0, eos := true })) := by
  rfl

example : ∀ len e fr, (Streams.popFrame 4 ({} : Streams) 16384).2 ≠ some (.data len e fr) := by
  intro len e fr h; cases h

end H2V.Props.C02

#print axioms H2V.Props.C02.send_ledger_safe
#print axioms H2V.Props.C02.data_frame_within_windows
#print axioms H2V.Props.C02.only_empty_data_on_exhausted_window
#print axioms H2V.Props.C02.windows_untouched_without_data
#print axioms H2V.Props.C02.capacity_moves_keep_windows
#print axioms H2V.Props.C02.invariant_preserved_by_the_window_events
