import H2V.Lemmas.ConnFlowPMain
/-
  C02 — never sends more DATA than the peer's stream and connection windows allow.
  Property theorems only (lemmas: `H2V/Lemmas/ConnFlowP*.lean`; what is partial and why:
  `H2V/Lemmas/ConnFlowPNOTES.md`).

  Vocabulary (defined in the lemma files, about the model `H2V/Model/Conn*.lean`):
    * `Reach s`      — `s : Streams` is reachable from a new connection by any sequence of the stream-layer
                       API calls that the connection (`ConnProto.lean`) and the user handles
                       (`ConnDriver.lean`) make; WINDOW_UPDATE increments and SETTINGS_INITIAL_WINDOW_SIZE
                       are 31-bit values, which is what `decode_frame` delivers (`decoder_delivers_31_bit_values`);
    * `ReachH s g d` — the same with two ghost numbers: `g` = credit granted for the connection (65 535 +
                       accepted WINDOW_UPDATE increments on stream 0), `d` = DATA octets `pop_frame`
                       returned inside `poll_complete` so far;
    * `SafeInv s`    — the send-side safety invariant (`ConnFlowPInv.lean`); it holds in every reachable
                       state *and between any two model functions inside an API call*: every function of
                       `prioritize.rs`, `send.rs`, `recv.rs`, `streams.rs` preserves it;
    * `sumAv slab`   — Σ over the slab of `stream.send_flow.available` (capacity assigned to streams);
    * `WFr s s1`     — `s1` comes from `s` by steps that change no send window;
    * `Charged s1 s' k len` — from `s1` to `s'` exactly `len` octets were charged to the connection window
                       and to the window and the capacity of the stream with store key `k`, nothing else;
    * `PopRel s m r` — the specification of `pop_frame`: if `r` carries a DATA frame there is the state `s1`
                       (`WFr s s1`, `SafeInv s1`) where the chunk fits (`DataCut`) and from which it is
                       `Charged`; otherwise `WFr s r.1`;
    * `pollLog`      — the `pop_frame` calls `poll_complete` makes; `sentIn` their DATA octets.
-/
namespace H2V.Props.C02
open H2V H2V.Model H2V.Model.Conn H2V.Lemmas.ConnFlowP

/-- **Send ledger (safety direction), every reachable state.**  The capacity assigned to streams plus
    the capacity the connection still holds never exceeds the connection send window (= credit
    granted − DATA sent, see `sent_never_exceeds_granted`); no stream holds negative capacity; a
    stream that holds capacity holds at most its own send window — so a stream whose window a
    SETTINGS change made zero or negative holds nothing and gets nothing out; all windows stay in `i32`. -/
theorem send_ledger_safe {s : Streams} (h : Reach s) :
    sumAv s.store.slab + s.prio.flow.available.val ≤ s.prio.flow.windowSize.val ∧
    0 ≤ s.prio.flow.available.val ∧ s.prio.flow.windowSize.val ≤ 2147483647 ∧
    ∀ x ∈ s.store.slab,
      0 ≤ x.sendFlow.available.val ∧
      (0 < x.sendFlow.available.val → x.sendFlow.available.val ≤ x.sendFlow.windowSize.val) ∧
      -2147483648 ≤ x.sendFlow.windowSize.val ∧ x.sendFlow.windowSize.val ≤ 2147483647 :=
  ⟨by simpa using h.safe.ledger, h.safe.a0, h.safe.whi, fun x hx =>
    ⟨(h.safe.st x hx).av0, (h.safe.st x hx).avw, (h.safe.st x hx).wlo, (h.safe.st x hx).whi⟩⟩

/-- non-vacuity: a new connection's stream layer is reachable, for every builder configuration,
    client and server -/
theorem new_connection_is_reachable (g : Conn.Cfg) (ecp : Bool) (peerFirst : Bytes) :
    ReachH (Conn.init g).streams 65535 0 ∧ ReachH (Conn.initServer g ecp peerFirst).streams 65535 0 :=
  ⟨init_reachH g, initServer_reachH g ecp peerFirst⟩

/-- **History form, connection.**  Along every history: connection send window = credit granted −
    DATA octets handed to the codec, and `0 ≤ sent ≤ granted`: the flow-controlled octets written for
    the connection as a whole never exceed the credit the peer has granted so far (the initial
    65 535 plus the WINDOW_UPDATE increments actually received and accepted). -/
theorem sent_never_exceeds_granted {s : Streams} {g d : Int} (h : ReachH s g d) :
    s.prio.flow.windowSize.val = g - d ∧ 0 ≤ d ∧ d ≤ g ∧ Reach s :=
  history_ledger h

/-- **Every DATA frame fits the windows at the moment it is cut, and is charged exactly.**
    `pop_frame` is the only place where DATA leaves the stream layer.  If, from a state `s`
    satisfying the invariant, it returns a DATA frame of `len` octets for the stream with store key
    `fr.key`, there is the state `s1` at the moment the chunk was cut — reached from `s` without any
    window changing — in which `len ≤ max_len` (the peer's max frame size), `len ≤` the connection
    send window, `len ≤` the capacity assigned to the stream, and unless `len = 0`, `len ≤` the
    stream's send window; from `s1` to the result exactly `len` is charged to the connection window,
    the stream window and the stream's capacity, and nothing else changes. -/
theorem data_frame_within_windows {s s' : Streams} (h : SafeInv s) {fuel maxLen len : Nat} {eos : Bool}
    {fr : DataFrame} (hp : Streams.popFrame fuel s maxLen = (s', some (.data len eos fr))) :
    ∃ s1, WFr s s1 ∧ SafeInv s1 ∧
      len ≤ maxLen ∧
      (len : Int) ≤ s1.prio.flow.windowSize.val ∧
      (len : Int) ≤ (s1.stream fr.key).sendFlow.available.val ∧
      (0 < len → (len : Int) ≤ (s1.stream fr.key).sendFlow.windowSize.val) ∧
      s1.prio.flow.windowSize = s.prio.flow.windowSize ∧
      Charged s1 s' fr.key len :=
  data_frame_bounds h hp

/-- **While a window is zero or negative only zero-length DATA is sent against it.** -/
theorem only_empty_data_on_exhausted_window {s s' : Streams} (h : SafeInv s) {fuel maxLen len : Nat} {eos : Bool}
    {fr : DataFrame} (hp : Streams.popFrame fuel s maxLen = (s', some (.data len eos fr))) :
    ∃ s1, WFr s s1 ∧
      (s1.prio.flow.windowSize.val ≤ 0 → len = 0) ∧
      ((s1.stream fr.key).sendFlow.windowSize.val ≤ 0 → len = 0) :=
  empty_data_on_exhausted_window h hp

/-- **… for every DATA frame `poll_complete` writes, from every reachable state**: each `pop_frame`
    call it makes (`pollLog`) starts in a state satisfying the invariant and obeys `PopRel` (so the
    two theorems above apply to every frame), and these calls account for the *whole* change of the
    connection window — no DATA escapes the log. -/
theorem every_data_frame_of_poll_complete_fits {s : Streams} (h : Reach s) (fuel : Nat) (w : Writer) (io : Tio)
    (tag : String) :
    (∀ c ∈ pollLog fuel s w io tag, SafeInv c.pre ∧ PopRel c.pre c.maxLen c.out) ∧
    (Streams.pollComplete fuel s w io tag).1.prio.flow.windowSize.val =
      s.prio.flow.windowSize.val - sentIn (pollLog fuel s w io tag) :=
  poll_complete_frames h fuel w io tag

/-- at the moment a chunk is cut neither `FlowControl::send_data` call can fail: the `assert!`s
    (panics) and checked subtractions of `send_data` on the stream and on the connection hold -/
theorem flow_control_asserts_hold {s1 : Streams} (h : SafeInv s1) {k len maxLen : Nat} (hc : DataCut s1 k len maxLen) :
    ((s1.stream k).sendFlow.sendData len).2 = .ok () ∧
    ((s1.prio.flow.assignCapacity len).1.sendData len).2 = .ok () :=
  send_data_cannot_fail h hc

/-- **Windows move only when DATA goes out** (or WINDOW_UPDATE / SETTINGS come in): when `pop_frame`
    returns anything but DATA no send window changed; the capacity-moving functions of
    `prioritize.rs` change no window. -/
theorem windows_untouched_without_data {s : Streams} (h : SafeInv s) (fuel maxLen id n : Nat)
    (hne : ∀ len e fr, (Streams.popFrame fuel s maxLen).2 ≠ some (.data len e fr)) :
    WFr s (Streams.popFrame fuel s maxLen).1 ∧
    WFr s (s.tryAssignCapacity id) ∧ WFr s (s.assignConnectionCapacity n) ∧ WFr s (s.reserveCapacity id n) ∧
    WFr s (s.reclaimAllCapacity id) ∧ WFr s (s.reclaimReservedCapacity id) :=
  ⟨no_data_no_window_change h fuel maxLen hne,
   (WFr.refl s).tryAssignCapacity id, (WFr.refl s).assignConnectionCapacity n, (WFr.refl s).reserveCapacity id n,
   (WFr.refl s).reclaimAllCapacity id, (WFr.refl s).reclaimReservedCapacity id⟩

/-- the invariant survives the window events themselves, from any state satisfying it (in
    particular in the middle of an API call): all the DATA `poll_complete` writes, a WINDOW_UPDATE, a
    SETTINGS_INITIAL_WINDOW_SIZE change up or down (stream windows may go negative) -/
theorem invariant_preserved_by_the_window_events {s : Streams} (h : SafeInv s) :
    (∀ fuel w io tag, SafeInv (Streams.pollComplete fuel s w io tag).1) ∧
    (∀ id inc, inc ≤ 2147483647 → SafeInv (s.recvWindowUpdate id inc).1) ∧
    (∀ vals b, SettingsOk vals → SafeInv (s.applyRemoteSettings vals b).1) :=
  ⟨fun fuel w io tag => SafeInv.pollComplete fuel h w io tag,
   fun id inc hinc => h.recvWindowUpdate id inc hinc,
   fun vals b hv => h.applyRemoteSettings vals b hv⟩

/-- the two argument bounds `Reach` asks for are met by whatever the frame decoder yields: a
    WINDOW_UPDATE increment is below `2^31`, SETTINGS_INITIAL_WINDOW_SIZE at most `2^31 - 1`
    (`FrameOk`), for every frame `decode_frame` returns -/
theorem decoder_delivers_31_bit_values {r r' : CodecRead.Reader} {bytes : Bytes} {f : Frame.Frame}
    (h : CodecRead.decodeFrame r bytes = (r', .frame f)) : FrameOk f :=
  decodeFrame_ok h

-- ----------------------------------------------------------------- non-vacuity of the hypotheses

/-- a concrete state: one open stream (key 0, id 1) with a 10-octet DATA frame queued, 10 octets of
    capacity assigned, stream window 100, connection window 65 535 of which 65 525 unassigned -/
def exState : Streams :=
  { store := { slab := [{ key := 0, id := 1, state := { inner := .open .streaming .streaming },
                          isPendingSend := true, sendFlow := ⟨⟨100⟩, ⟨10⟩⟩, requestedSendCapacity := 10,
                          bufferedSendData := 10, pendingSend := [.data 10 true] }],
               ids := [(1, 0)], nextKey := 1 },
    actions := { send := { prioritize := { pendingSend := [0], flow := ⟨⟨65535⟩, ⟨65525⟩⟩ } } } }

example : SafeInv exState := by
  refine ⟨Int.le_refl _, ⟨by decide, by intro x hx; simp [exState] at hx; subst hx; decide⟩, ?_, by decide, by decide, by decide⟩
  intro x hx
  simp [exState] at hx; subst hx
  exact ⟨by decide, by intro _; decide, by decide, by decide⟩

/-- `pop_frame` does return a DATA frame from it (hypothesis `hp` of the DATA theorems) -/
example : Streams.popFrame 4 exState 16384 =
    ((Streams.popFrame 4 exState 16384).1, some (.data 10 true { key := 0, sid := 1, rest := 0, eos := true })) := by
  rfl

/-- … and nothing from an empty one (hypothesis `hne`) -/
example : ∀ len e fr, (Streams.popFrame 4 ({} : Streams) 16384).2 ≠ some (.data len e fr) := by
  intro len e fr h; cases h

/-- a WINDOW_UPDATE frame that decodes (hypothesis of `decoder_delivers_31_bit_values`) -/
example : ∃ r' f, CodecRead.decodeFrame (CodecRead.Reader.new 16384) [0, 0, 4, 8, 0, 0, 0, 0, 0, 0x80, 0, 1, 0] =
    (r', .frame f) := ⟨_, _, rfl⟩

end H2V.Props.C02

#print axioms H2V.Props.C02.send_ledger_safe
#print axioms H2V.Props.C02.new_connection_is_reachable
#print axioms H2V.Props.C02.sent_never_exceeds_granted
#print axioms H2V.Props.C02.data_frame_within_windows
#print axioms H2V.Props.C02.only_empty_data_on_exhausted_window
#print axioms H2V.Props.C02.every_data_frame_of_poll_complete_fits
#print axioms H2V.Props.C02.flow_control_asserts_hold
#print axioms H2V.Props.C02.windows_untouched_without_data
#print axioms H2V.Props.C02.invariant_preserved_by_the_window_events
#print axioms H2V.Props.C02.decoder_delivers_31_bit_values
