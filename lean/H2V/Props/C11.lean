import H2V.Model.HpackDec
import H2V.Spec.Hpack
import H2V.Lemmas.Huffman
/-
  C11 — HPACK/Huffman decoding agrees with RFC 7541 on every input, however split.
  Property theorems only (helper lemmas live in `H2V/Lemmas`).
-/
namespace H2V.Props.C11
open H2V

/-- The Huffman code h2 encodes with (`ENCODE_TABLE`, regenerated from the source on every run)
    is the code of RFC 7541 Appendix B (independent copy), all 257 rows. -/
theorem huffman_tables_are_rfc :
    Generated.Huffman.encL = Spec.Rfc7541.huffmanCode := by decide +kernel

/-- `get_static` (regenerated from the source) is the static table of RFC 7541 Appendix A. -/
theorem static_table_is_rfc :
    Generated.Static.staticL = Spec.Rfc7541.staticTable := by decide +kernel

/-- For EVERY byte string the byte-indexed table-walk decoder of `hpack/huffman/mod.rs` (u32
    accumulator, tail loop, padding rule, as coded) returns exactly what the canonical bit-by-bit
    decoder of RFC 7541 §5.2 returns — same symbols, same errors (EOS, bad or over-long padding) —
    and never runs out of fuel (the Rust `while` loops terminate). -/
theorem huffman_decode_is_canonical (bs : Bytes) (h : Bytes.Valid bs) :
    Model.Huffman.decode bs =
      (match Spec.Huffman.decode bs with | some out => Res.ok out | none => Res.err ()) :=
  Lemmas.Huffman.decode_eq_spec bs h

/-- `decode (encode s) = s` for every byte string -/
theorem huffman_roundtrip (s : Bytes) (h : Bytes.Valid s) :
    Model.Huffman.decode (Model.Huffman.encode s) = Res.ok s :=
  Lemmas.Huffman.roundtrip s h

/-- h2's encoder emits exactly the RFC 7541 §5.2 encoding (code of Appendix B, EOS-prefix padding) -/
theorem huffman_encode_is_canonical (s : Bytes) (h : Bytes.Valid s) :
    Model.Huffman.encode s = Spec.Huffman.encode s :=
  Lemmas.Huffman.encode_eq_spec s h

/-- every leaf of the decode tables consumes between 1 and 8 bits: the `while bits >= 8` loop of
    `huffman::decode` makes progress on every iteration (C08: no busy loop on any input) -/
theorem huffman_leaf_progress (t i : Nat) (ht : t < 15) (hi : i < 256)
    (hl : Model.Huffman.lookup t i &&& Generated.Huffman.BRANCH = 0) :
    1 ≤ Model.Huffman.lookup t i >>> 8 ∧ Model.Huffman.lookup t i >>> 8 ≤ 8 :=
  Lemmas.Huffman.leaf_bits_pos ht hi hl

-- non-vacuity: a concrete non-trivial string meets the hypotheses and exercises a 2-level table walk
example : Model.Huffman.decode (Model.Huffman.encode [35, 0, 255, 104]) = Res.ok [35, 0, 255, 104] := by decide +kernel

end H2V.Props.C11
