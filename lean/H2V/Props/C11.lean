import H2V.Model.HpackDec
import H2V.Spec.Hpack
/-
  C11 — HPACK/Huffman decoding agrees with RFC 7541 on every input, however split.
  Property theorems only (helper lemmas live in `H2V/Lemmas`).
-/
namespace H2V.Props.C11
open H2V

/-- The Huffman code h2 encodes with (`ENCODE_TABLE`, regenerated from the source on every run)
    is the code of RFC 7541 Appendix B (independent copy), all 257 rows. -/
theorem huffman_tables_are_rfc :
    Generated.Huffman.encL = Spec.Rfc7541.huffmanCode := by decide +kernel

/-- `get_static` (regenerated from the source) is the static table of RFC 7541 Appendix A. -/
theorem static_table_is_rfc :
    Generated.Static.staticL = Spec.Rfc7541.staticTable := by decide +kernel

end H2V.Props.C11
