import H2V.Model.HpackDec
import H2V.Spec.Hpack
import H2V.Props.C11Tables
import H2V.Lemmas.Huffman
import H2V.Lemmas.HpackDec
/-
  C11 — HPACK/Huffman decoding agrees with RFC 7541 on every input, however split.
  Property theorems only (helper lemmas live in `H2V/Lemmas`).
-/
namespace H2V.Props.C11
open H2V

/-- For EVERY byte string the byte-indexed table-walk decoder of `hpack/huffman/mod.rs` (u32
    accumulator, tail loop, padding rule, as coded) returns exactly what the canonical bit-by-bit
    decoder of RFC 7541 §5.2 returns — same symbols, same errors (EOS, bad or over-long padding) —
    and never runs out of fuel (the Rust `while` loops terminate). -/
theorem huffman_decode_is_canonical (bs : Bytes) (h : Bytes.Valid bs) :
    Model.Huffman.decode bs =
      (match Spec.Huffman.decode bs with | some out => Res.ok out | none => Res.err ()) :=
  Lemmas.Huffman.decode_eq_spec bs h

/-- `decode (encode s) = s` for every byte string -/
theorem huffman_roundtrip (s : Bytes) (h : Bytes.Valid s) :
    Model.Huffman.decode (Model.Huffman.encode s) = Res.ok s :=
  Lemmas.Huffman.roundtrip s h

/-- h2's encoder emits exactly the RFC 7541 §5.2 encoding (code of Appendix B, EOS-prefix padding) -/
theorem huffman_encode_is_canonical (s : Bytes) (h : Bytes.Valid s) :
    Model.Huffman.encode s = Spec.Huffman.encode s :=
  Lemmas.Huffman.encode_eq_spec s h

/-- every leaf of the decode tables consumes between 1 and 8 bits: the `while bits >= 8` loop of
    `huffman::decode` makes progress on every iteration (C08: no busy loop on any input) -/
theorem huffman_leaf_progress (t i : Nat) (ht : t < 15) (hi : i < 256)
    (hl : Model.Huffman.lookup t i &&& Generated.Huffman.BRANCH = 0) :
    1 ≤ Model.Huffman.lookup t i >>> 8 ∧ Model.Huffman.lookup t i >>> 8 ≤ 8 :=
  Lemmas.Huffman.leaf_bits_pos ht hi hl

-- non-vacuity: a concrete non-trivial string meets the hypotheses and exercises a 2-level table walk
example : Model.Huffman.decode (Model.Huffman.encode [35, 0, 255, 104]) = Res.ok [35, 0, 255, 104] := by decide +kernel

open H2V.Model.Hpack in
/-- `decode_sound`: whenever h2's decoder accepts a (whole) header block, the RFC 7541 reference
    decoder, started from the abstraction of the same state, accepts it too and assigns it exactly
    the same field list, and the two dynamic tables agree afterwards; nothing is left undecoded. -/
theorem decode_sound (d : Decoder) (src : Bytes)
    (hi : Lemmas.HpackDec.Table.Inv d.table) (hv : Bytes.Valid src) (hc : d.continuing = false)
    (hr : (d.decode src).result = .ok ()) :
    Spec.Hpack.decode (Lemmas.HpackDec.abs d) src
        = .ok ((d.decode src).fields, Lemmas.HpackDec.abs (d.decode src).dec) ∧
    (d.decode src).tail = [] :=
  Lemmas.HpackDec.decode_sound (fun bs h => Lemmas.Huffman.decode_eq_spec bs h) d src hi hv hc hr

open H2V.Model.Hpack in
/-- a block that RFC 7541 makes a decoding error (bad index, oversize or misplaced size update,
    invalid Huffman padding / EOS, truncation) is never accepted -/
theorem rfc_error_rejected (d : Decoder) (src : Bytes) (e : Spec.Hpack.Err)
    (hi : Lemmas.HpackDec.Table.Inv d.table) (hv : Bytes.Valid src) (hc : d.continuing = false)
    (h : Spec.Hpack.decode (Lemmas.HpackDec.abs d) src = .error e) :
    (d.decode src).result ≠ .ok () :=
  Lemmas.HpackDec.spec_error_rejected (fun bs h => Lemmas.Huffman.decode_eq_spec bs h) d src e hi hv hc h

open H2V.Model.Hpack in
/-- `split_invariance`: for EVERY decoder state, every byte string and every partition of it into
    fragments, feeding the fragments one by one the way `framed_read` does (undecoded tail carried
    over, `continue_block` announced, stop at the first non-`NeedMore` error) yields the same
    fields, the same decoder state, the same tail and the same result as feeding it whole. -/
theorem split_invariance (d : Decoder) (a : Bytes) (frags : List Bytes) :
    d.decode (a ++ frags.flatten) = frags.foldl Lemmas.HpackDec.feed (d.decode a) :=
  Lemmas.HpackDec.split_invariance_list d a frags

open H2V.Model.Hpack in
/-- **the headline over fragmented input**: a header block that arrives as a HEADERS fragment `a`
    followed by ANY number of CONTINUATION fragments of ANY sizes (empty ones included), fed one by
    one the way `framed_read` does, and accepted at the end, is decoded by the RFC 7541 reference —
    run once over the concatenation — to exactly the same field list and the same dynamic table,
    with nothing left undecoded (`decode_sound` carried through `split_invariance`). -/
theorem fragments_decode_sound (d : Decoder) (a : Bytes) (frags : List Bytes)
    (hi : Lemmas.HpackDec.Table.Inv d.table) (hv : Bytes.Valid (a ++ frags.flatten))
    (hc : d.continuing = false)
    (hr : (frags.foldl Lemmas.HpackDec.feed (d.decode a)).result = .ok ()) :
    Spec.Hpack.decode (Lemmas.HpackDec.abs d) (a ++ frags.flatten)
        = .ok ((frags.foldl Lemmas.HpackDec.feed (d.decode a)).fields,
               Lemmas.HpackDec.abs (frags.foldl Lemmas.HpackDec.feed (d.decode a)).dec) ∧
    (frags.foldl Lemmas.HpackDec.feed (d.decode a)).tail = [] := by
  rw [← Lemmas.HpackDec.split_invariance_list d a frags] at hr ⊢
  exact Lemmas.HpackDec.decode_sound (fun bs h => Lemmas.Huffman.decode_eq_spec bs h) d _ hi hv hc hr

open H2V.Model.Hpack in
/-- … and a block that RFC 7541 makes a decoding error is rejected however it is cut into
    fragments: no fragmentation makes h2 accept what the reference refuses -/
theorem fragments_rfc_error_rejected (d : Decoder) (a : Bytes) (frags : List Bytes) (e : Spec.Hpack.Err)
    (hi : Lemmas.HpackDec.Table.Inv d.table) (hv : Bytes.Valid (a ++ frags.flatten))
    (hc : d.continuing = false)
    (h : Spec.Hpack.decode (Lemmas.HpackDec.abs d) (a ++ frags.flatten) = .error e) :
    (frags.foldl Lemmas.HpackDec.feed (d.decode a)).result ≠ .ok () := by
  rw [← Lemmas.HpackDec.split_invariance_list d a frags]
  exact Lemmas.HpackDec.spec_error_rejected (fun bs h => Lemmas.Huffman.decode_eq_spec bs h) d _ e hi hv hc h

section History
open H2V.Model.Hpack

/-- h2's decoder over a connection's header blocks, each arriving as a HEADERS fragment plus
    CONTINUATION fragments; stops at the first block that is not accepted -/
def blocksOk (d : Decoder) : List (Bytes × List Bytes) → Option (List (List Header) × Decoder)
  | [] => some ([], d)
  | (a, frags) :: rest =>
    match (frags.foldl Lemmas.HpackDec.feed (d.decode a)).result with
    | .ok () => (blocksOk (frags.foldl Lemmas.HpackDec.feed (d.decode a)).dec rest).map
                  (fun r => ((frags.foldl Lemmas.HpackDec.feed (d.decode a)).fields :: r.1, r.2))
    | .error _ => none

/-- the RFC 7541 reference over the same blocks, each as one byte string -/
def specBlocks (s : Spec.Hpack.St) : List Bytes → Option (List (List Spec.Hpack.Field) × Spec.Hpack.St)
  | [] => some ([], s)
  | b :: rest =>
    match Spec.Hpack.decode s b with
    | .ok (fs, s') => (specBlocks s' rest).map (fun r => (fs :: r.1, r.2))
    | .error _ => none

/-- **whole connection histories**: for ANY sequence of header blocks, each cut into a HEADERS
    fragment and any CONTINUATION fragments, if h2's decoder accepts them all (fed fragment by
    fragment, carrying its dynamic table from block to block) then the RFC 7541 reference, run over
    the uncut blocks from the abstraction of the same starting state, accepts them all, assigns every
    block exactly the same field list, and ends with the same dynamic table — no hypothesis on the
    intermediate states (the table invariant and the consumed `continuing` mark are carried by the
    induction). -/
theorem history_of_fragmented_blocks_sound (blocks : List (Bytes × List Bytes)) (d : Decoder)
    (hi : Lemmas.HpackDec.Table.Inv d.table) (hc : d.continuing = false)
    (hv : ∀ b ∈ blocks, Bytes.Valid (b.1 ++ b.2.flatten))
    (fs : List (List Header)) (d' : Decoder) (h : blocksOk d blocks = some (fs, d')) :
    specBlocks (Lemmas.HpackDec.abs d) (blocks.map fun b => b.1 ++ b.2.flatten)
      = some (fs, Lemmas.HpackDec.abs d') := by
  induction blocks generalizing d fs d' with
  | nil => simp only [blocksOk, Option.some.injEq, Prod.mk.injEq] at h; obtain ⟨rfl, rfl⟩ := h; rfl
  | cons b rest ih =>
    obtain ⟨a, frags⟩ := b
    simp only [blocksOk] at h
    split at h
    · rename_i hr
      have hvb : Bytes.Valid (a ++ frags.flatten) := hv (a, frags) (by simp)
      have hs := (fragments_decode_sound d a frags hi hvb hc hr).1
      have hi' : Lemmas.HpackDec.Table.Inv (frags.foldl Lemmas.HpackDec.feed (d.decode a)).dec.table := by
        rw [← Lemmas.HpackDec.split_invariance_list d a frags]
        exact Lemmas.HpackDec.decode_preserves_inv d _ hi
      have hc' : (frags.foldl Lemmas.HpackDec.feed (d.decode a)).dec.continuing = false := by
        rw [← Lemmas.HpackDec.split_invariance_list d a frags]
        exact Lemmas.HpackDec.decode_continuing_false d _
      cases hrest : blocksOk (frags.foldl Lemmas.HpackDec.feed (d.decode a)).dec rest with
      | none => rw [hrest] at h; simp at h
      | some r =>
        obtain ⟨fs', d''⟩ := r
        rw [hrest] at h
        simp only [Option.map_some, Option.some.injEq, Prod.mk.injEq] at h
        obtain ⟨rfl, rfl⟩ := h
        have := ih _ hi' hc' (fun b hb => hv b (by simp [hb])) fs' d'' hrest
        simp only [List.map_cons, specBlocks, hs, this, Option.map_some]
    · cases h
/-- what happens to a decoder over a connection: a header block arrives in fragments, or the local
    application changes SETTINGS_HEADER_TABLE_SIZE (`Decoder::queue_size_update`) -/
inductive HOp where
  | block (a : Bytes) (frags : List Bytes)
  | queue (n : Nat)

def histOk (d : Decoder) : List HOp → Option (List (List Header) × Decoder)
  | [] => some ([], d)
  | .queue n :: rest => histOk (d.queueSizeUpdate n) rest
  | .block a frags :: rest =>
    match (frags.foldl Lemmas.HpackDec.feed (d.decode a)).result with
    | .ok () => (histOk (frags.foldl Lemmas.HpackDec.feed (d.decode a)).dec rest).map
                  (fun r => ((frags.foldl Lemmas.HpackDec.feed (d.decode a)).fields :: r.1, r.2))
    | .error _ => none

def specHist (s : Spec.Hpack.St) : List HOp → Option (List (List Spec.Hpack.Field) × Spec.Hpack.St)
  | [] => some ([], s)
  | .queue n :: rest => specHist (Spec.Hpack.setLimit s n) rest
  | .block a frags :: rest =>
    match Spec.Hpack.decode s (a ++ frags.flatten) with
    | .ok (fs, s') => (specHist s' rest).map (fun r => (fs :: r.1, r.2))
    | .error _ => none

/-- `Decoder::queue_size_update` is the reference's `setLimit` (largest value queued since the last
    block wins; takes effect when the next block starts) -/
theorem queue_size_update_refines (d : Decoder) (n : Nat) :
    Lemmas.HpackDec.abs (d.queueSizeUpdate n) = Spec.Hpack.setLimit (Lemmas.HpackDec.abs d) n := rfl

/-- **whole histories with local SETTINGS_HEADER_TABLE_SIZE changes in between**: as
    `history_of_fragmented_blocks_sound`, for ANY interleaving of fragmented header blocks and
    `queue_size_update` calls (any values, repeated, 0 included): if h2's decoder accepts every
    block, the reference — with `setLimit` at the same points — accepts every uncut block with the
    same field list and ends in the same state (table, limit, pending limit). -/
theorem history_with_size_updates_sound (ops : List HOp) (d : Decoder)
    (hi : Lemmas.HpackDec.Table.Inv d.table) (hc : d.continuing = false)
    (hv : ∀ a frags, HOp.block a frags ∈ ops → Bytes.Valid (a ++ frags.flatten))
    (fs : List (List Header)) (d' : Decoder) (h : histOk d ops = some (fs, d')) :
    specHist (Lemmas.HpackDec.abs d) ops = some (fs, Lemmas.HpackDec.abs d') := by
  induction ops generalizing d fs d' with
  | nil => simp only [histOk, Option.some.injEq, Prod.mk.injEq] at h; obtain ⟨rfl, rfl⟩ := h; rfl
  | cons op rest ih =>
    cases op with
    | queue n =>
      simp only [histOk] at h
      simp only [specHist, ← queue_size_update_refines]
      exact ih (d.queueSizeUpdate n) hi hc (fun a f hm => hv a f (by simp [hm])) fs d' h
    | block a frags =>
      simp only [histOk] at h
      split at h
      · rename_i hr
        have hvb : Bytes.Valid (a ++ frags.flatten) := hv a frags (by simp)
        have hs := (fragments_decode_sound d a frags hi hvb hc hr).1
        have hi' : Lemmas.HpackDec.Table.Inv (frags.foldl Lemmas.HpackDec.feed (d.decode a)).dec.table := by
          rw [← Lemmas.HpackDec.split_invariance_list d a frags]
          exact Lemmas.HpackDec.decode_preserves_inv d _ hi
        have hc' : (frags.foldl Lemmas.HpackDec.feed (d.decode a)).dec.continuing = false := by
          rw [← Lemmas.HpackDec.split_invariance_list d a frags]
          exact Lemmas.HpackDec.decode_continuing_false d _
        cases hrest : histOk (frags.foldl Lemmas.HpackDec.feed (d.decode a)).dec rest with
        | none => rw [hrest] at h; simp at h
        | some r =>
          obtain ⟨fs', d''⟩ := r
          rw [hrest] at h
          simp only [Option.map_some, Option.some.injEq, Prod.mk.injEq] at h
          obtain ⟨rfl, rfl⟩ := h
          have := ih _ hi' hc' (fun a f hm => hv a f (by simp [hm])) fs' d'' hrest
          simp only [specHist, hs, this, Option.map_some]
      · cases h
end History

open H2V.Model.Hpack in
/-- `table_within_limit`: after ANY sequence of decode / queue_size_update / continue_block calls
    the dynamic table's size is the sum of its entries' sizes, never exceeds its maximum, and the
    maximum never exceeds the largest SETTINGS_HEADER_TABLE_SIZE value the endpoint ever announced.
    (h2 does not insist that the peer acknowledges a *lowered* limit with a size update; the
    reference is equally lenient, and the bound is stated accordingly.) -/
theorem table_within_limit (n : Nat) (ops : List Lemmas.HpackDec.Op) :
    Lemmas.HpackDec.Table.Inv (Lemmas.HpackDec.run (Decoder.new n) ops).table ∧
    (Lemmas.HpackDec.run (Decoder.new n) ops).table.size ≤ (Lemmas.HpackDec.run (Decoder.new n) ops).table.maxSize ∧
    (Lemmas.HpackDec.run (Decoder.new n) ops).table.maxSize ≤ Lemmas.HpackDec.maxQueued n ops :=
  Lemmas.HpackDec.table_within_limit n ops

open H2V.Model.Hpack in
/-- the `panic!("Size of table != 0, but no headers left!")` of `Table::consolidate` and the model's
    fuel bound are unreachable on every input (C08) -/
theorem decode_never_panics (d : Decoder) (src : Bytes) (hv : Bytes.Valid src)
    (hi : Lemmas.HpackDec.Table.Inv d.table) :
    (d.decode src).result ≠ .error .panic ∧ (d.decode src).result ≠ .error .fuel :=
  ⟨Lemmas.HpackDec.decode_never_panic (fun bs h => Lemmas.Huffman.decode_eq_spec bs h) d src hv hi,
   Lemmas.HpackDec.decode_never_fuel (fun bs h => Lemmas.Huffman.decode_eq_spec bs h) d src hv hi⟩

open H2V.Model.Hpack in
/-- prefix integers: `decode_int` agrees with RFC 7541 §5.1 whenever it accepts, never consumes more
    than 5 octets, and never yields a value that could overflow (`int_limits`) -/
theorem int_sound_and_bounded (buf : Bytes) (p v : Nat) (rest : Bytes) (hv : Bytes.Valid buf)
    (h : decodeInt buf p = .ok (v, rest)) :
    Spec.Hpack.int p buf = some (v, rest) ∧ v < 2 ^ 28 + 2 ^ 8 ∧ buf.length - rest.length ≤ 5 :=
  ⟨Lemmas.HpackDec.decodeInt_sound buf p v rest hv h,
   (Lemmas.HpackDec.decodeInt_bounded buf p v rest h).1, (Lemmas.HpackDec.decodeInt_bounded buf p v rest h).2.2⟩

open H2V.Model.Hpack in
/-- `decode_int (encode_int v) = v` for every value up to the exact 5-octet limit -/
theorem int_roundtrip (v p first : Nat) (rest : Bytes)
    (hp : 1 ≤ p ∧ p ≤ 8) (hf : first % 2 ^ p = 0) (hv : v < 2 ^ 28 + 2 ^ p - 1) :
    decodeInt (encodeInt v p first ++ rest) p = .ok (v, rest) :=
  Lemmas.HpackDec.int_roundtrip_exact v p first rest hp hf hv

-- non-vacuity: the RFC 7541 C.3.1 request block is accepted from the initial state, whose table
-- satisfies the invariant
open H2V.Model.Hpack in
example : Lemmas.HpackDec.Table.Inv (Decoder.new 4096).table ∧
    (match ((Decoder.new 4096).decode [130, 134, 132, 65, 15, 119, 119, 119, 46, 101, 120, 97, 109, 112, 108, 101, 46, 99, 111, 109]).result with
      | .ok _ => true | .error _ => false) = true :=
  ⟨Lemmas.HpackDec.new_inv 4096, by decide +kernel⟩

-- non-vacuity of the fragment theorems: the same block cut as HEADERS[130,134] + CONTINUATION[] +
-- CONTINUATION[132,65,15,119] + CONTINUATION[rest] (a cut inside the literal) is accepted
open H2V.Model.Hpack in
example :
    (match ([[], [132, 65, 15, 119], [119, 119, 46, 101, 120, 97, 109, 112, 108, 101, 46, 99, 111, 109]].foldl
        Lemmas.HpackDec.feed ((Decoder.new 4096).decode [130, 134])).result with
      | .ok _ => true | .error _ => false) = true := by decide +kernel

-- non-vacuity of the history theorem: two blocks, the first cut inside a literal that enters the table,
-- the second referring to that entry (index 62), are accepted from the initial state
open H2V.Model.Hpack in
example : (blocksOk (Decoder.new 4096) [([130, 64, 1], [[97], [1, 98]]), ([190], [[]])]).isSome = true := by
  decide +kernel

-- non-vacuity of the history theorem with size updates: a block cut inside a literal, the limit
-- lowered to 0, then a block that opens with the size update the lowered limit calls for
open H2V.Model.Hpack in
example : (histOk (Decoder.new 4096)
    [.block [130, 64, 1] [[97], [1, 98]], .queue 0, .block [32] [[130]]]).isSome = true := by
  decide +kernel

end H2V.Props.C11
