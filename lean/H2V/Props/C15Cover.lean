import H2V.Lemmas.ConnPartPGaErr
/-
  C15 (cover) — a received GOAWAY fails EVERY locally initiated stream above its last-stream-id (and
  every stream still waiting to be opened), with the peer's reason, and touches NO other stream.
  Closes the gap left by `C15.recv_goaway_fails_stream_partial` (per selected stream only) and by
  `C07.goaway_received_resolves_streams_above_last_id` (resolved, but neither the reason nor the
  frame, nor the streams in `pending_open`).
  Property theorems only; lemmas: `H2V/Lemmas/ConnPartPGa*.lean`, notes: `H2V/Lemmas/ConnPartPNOTES.md`.

  Vocabulary.  `s.recvGoAwayFrame last reason debug` = `Inner::recv_go_away` (streams.rs):
  `Send::recv_go_away(last)`, then `store.for_each(|stream| if (stream.id > last ||
  stream.is_pending_open) && peer.is_local_init(stream.id) { counts.transition(stream, |..| {
  recv.handle_error(&err, stream); send.handle_error(buffer, stream, counts) }) })`, then
  `conn_error = Some(err)`, with `err = Error::remote_go_away(debug, reason)`.
  `Good s`: the store invariant of ConnWakeP (slab keys below `next_key`, the id map is a map whose
  entries name slab entries with that id) — holds in every reachable state (`store_invariant_holds`).
  `s.store.ids`: the id map `(stream id, key)`; `s.store.get? k`: the slab entry with key `k`.
  `newWakes s s'`: the waker tags woken between `s` and `s'`.  `SlotStep w x y`: the waker slot `y` is
  the slot `x`, or is empty and the tag that was parked in `x` is in `w` (woken).
  `failState err a`: `a.state.handle_error(err)`, except for a stream in `pending_open` whose implicit
  reset was scheduled (then: a plain library reset); characterised by `failed_state_carries_peer_reason`.
-/
set_option autoImplicit false
namespace H2V.Props.C15Cover
open H2V H2V.Model H2V.Model.Conn H2V.Lemmas.ConnWakeP H2V.Lemmas.ConnPartP

/-- **`for_each` coverage, the failed half.**  In every reachable state (`Good s`), after an accepted
    GOAWAY(last, reason, debug) EVERY stream the id map knows that is locally initiated and has
    `id > last` — or is still waiting in `pending_open`, whatever its id — is either released (removed
    from the slab: it was closed and unreferenced) or: its state is `failState(remote GOAWAY(debug,
    reason))`, its send queue is empty, nothing is buffered or requested, all four waker slots are empty
    and every tag that was parked on it has been woken; its id, handle count, receive queue, receive
    windows and `is_pending_open` flag are what they were.  (`Store::for_each` really reaches every entry
    although `transition_after` swap-removes the visited one, and an earlier visit never changes a
    later stream's state, id or `is_pending_open`.) -/
theorem goaway_fails_every_stream_above_cutoff (s s' : Streams) (h : Good s) (last : Nat) (reason : Reason)
    (debug : Bytes) (hok : s.recvGoAwayFrame last reason debug = (s', .ok ())) :
    ∀ e ∈ s.store.ids, ∀ a, s.store.get? e.2 = some a →
      s.counts.isLocalInit a.id = true → (a.id > last ∨ a.isPendingOpen = true) →
      s'.store.get? e.2 = none ∨
      ∃ b, s'.store.get? e.2 = some b ∧
        b.state = failState (PErr.remoteGoAway debug reason) a ∧
        b.pendingSend = [] ∧ b.bufferedSendData = 0 ∧ b.requestedSendCapacity = 0 ∧
        b.sendTask = none ∧ b.openTask = none ∧ b.recvTask = none ∧ b.pushTask = none ∧
        (∀ t, (a.sendTask = some t ∨ a.openTask = some t ∨ a.recvTask = some t ∨ a.pushTask = some t) →
          t ∈ newWakes s s') ∧
        b.id = a.id ∧ b.refCount = a.refCount ∧ b.pendingRecv = a.pendingRecv ∧ b.recvFlow = a.recvFlow ∧
        b.inFlightRecvData = a.inFlightRecvData ∧ b.isPendingOpen = a.isPendingOpen :=
  recvGoAwayFrame_fails_all s s' h last reason debug hok

/-- **… with the peer's reason and debug data.**  `failState`: a stream that was not closed ends as
    `Closed(Error(GoAway(debug, reason, Remote)))` — `Closed(ErrorAfterEndStream(..))` when the peer had
    already ended it, so that the complete response is still delivered —; a stream that was closed
    keeps its state (its earlier cause wins), except that a stream still in `pending_open` whose implicit
    reset was only scheduled (all handles dropped before it was opened) becomes a plain library reset
    with the scheduled reason: no RST_STREAM is owed on a stream that was never opened. -/
theorem failed_state_carries_peer_reason (a : Stream) (debug : Bytes) (reason : Reason) :
    (a.state.isClosed = false →
      (failState (PErr.remoteGoAway debug reason) a).inner =
        .closed (if a.state.isRecvEndStream then .errorAfterEndStream (.goAway debug reason .remote)
                 else .error (.goAway debug reason .remote))) ∧
    (a.state.isClosed = true →
      failState (PErr.remoteGoAway debug reason) a = a.state ∨
      (a.isPendingOpen = true ∧ ∃ r, a.state.getScheduledReset = some r ∧
        failState (PErr.remoteGoAway debug reason) a = { inner := .closed (.error (.reset a.id r .library)) })) :=
  failState_remoteGoAway a debug reason

/-- **`for_each` coverage, the untouched half (frame).**  After an accepted GOAWAY(last, …) no slab
    entry appears, and EVERY other slab entry — peer-initiated, or at or below `last` and not in
    `pending_open`; linked in the id map or not — is still there and is the entry it was, up to the six
    fields that the hand-out of the connection capacity freed by the failed streams
    (`reclaim_all_capacity → assign_connection_capacity`) may write on a stream that waits for
    capacity: `send_flow.available`, `send_task`/`open_task` (unchanged, or taken and woken),
    `send_capacity_inc` (never cleared), `is_pending_send_capacity`, `is_pending_send`.  In particular
    its state, queued frames, received events, handle count, windows, content-length bookkeeping and
    `is_counted` are untouched, and if the id map pointed to it, it still does (frames of the peer for
    it are still routed to it): streams at or below the cut-off run on. -/
theorem goaway_leaves_other_streams_untouched (s s' : Streams) (h : Good s) (last : Nat) (reason : Reason)
    (debug : Bytes) (hok : s.recvGoAwayFrame last reason debug = (s', .ok ())) :
    (∀ k, s.store.get? k = none → s'.store.get? k = none) ∧
    ∀ k a, s.store.get? k = some a →
      ¬ (s.counts.isLocalInit a.id = true ∧ (a.id > last ∨ a.isPendingOpen = true)) →
      ∃ b, s'.store.get? k = some b ∧
        b = { a with sendFlow := { a.sendFlow with available := b.sendFlow.available },
                     sendTask := b.sendTask, openTask := b.openTask, sendCapacityInc := b.sendCapacityInc,
                     isPendingSendCapacity := b.isPendingSendCapacity, isPendingSend := b.isPendingSend } ∧
        SlotStep (newWakes s s') a.sendTask b.sendTask ∧ SlotStep (newWakes s s') a.openTask b.openTask ∧
        (a.sendCapacityInc = true → b.sendCapacityInc = true) ∧
        (∀ e ∈ s.store.ids, e.2 = k → e ∈ s'.store.ids) :=
  recvGoAwayFrame_keeps_others s s' h last reason debug hok

/-- **the same coverage for `Inner::handle_error(err)`** — what runs when WE send the GOAWAY of a fatal
    error (`handle_go_away`), on an I/O error and on `abrupt_shutdown`: `conn_error = err`; no entry appears;
    EVERY stream the id map knows — whoever initiated it, whatever its id — is released, or ends with state
    `failState err` (`Closed(Error(err))`, `ErrorAfterEndStream` when the peer had ended it; a closed stream
    keeps its cause), send queue empty, nothing buffered or requested, nobody parked and everybody that was
    parked woken, everything else as before (`Failed`, spelled out by `goaway_fails_every_stream_above_cutoff`);
    every slab entry the id map does NOT know (unlinked earlier, kept by a handle) is not visited: it is the
    same entry up to the six capacity-assignment fields (`Unt`). -/
theorem handle_error_fails_every_linked_stream (s : Streams) (h : Good s) (err : PErr) :
    (s.handleError err).1.actions.connError = some err ∧
    (∀ k, s.store.get? k = none → (s.handleError err).1.store.get? k = none) ∧
    (∀ e ∈ s.store.ids, ∀ a, s.store.get? e.2 = some a →
      (s.handleError err).1.store.get? e.2 = none ∨
      ∃ b, (s.handleError err).1.store.get? e.2 = some b ∧
        b.state = failState err a ∧ b.pendingSend = [] ∧ b.bufferedSendData = 0 ∧ b.requestedSendCapacity = 0 ∧
        b.sendTask = none ∧ b.openTask = none ∧ b.recvTask = none ∧ b.pushTask = none ∧
        (∀ t, (a.sendTask = some t ∨ a.openTask = some t ∨ a.recvTask = some t ∨ a.pushTask = some t) →
          t ∈ newWakes s (s.handleError err).1) ∧
        b.id = a.id ∧ b.refCount = a.refCount ∧ b.pendingRecv = a.pendingRecv ∧ b.recvFlow = a.recvFlow ∧
        b.inFlightRecvData = a.inFlightRecvData ∧ b.isPendingOpen = a.isPendingOpen) ∧
    (∀ k a, s.store.get? k = some a → (∀ e ∈ s.store.ids, e.2 ≠ k) →
      ∃ b, (s.handleError err).1.store.get? k = some b ∧
        b = { a with sendFlow := { a.sendFlow with available := b.sendFlow.available },
                     sendTask := b.sendTask, openTask := b.openTask, sendCapacityInc := b.sendCapacityInc,
                     isPendingSendCapacity := b.isPendingSendCapacity, isPendingSend := b.isPendingSend }) := by
  obtain ⟨h1, h2, h3, h4⟩ := handleError_cover s h err
  refine ⟨h1, h2, fun e he a ha => ?_, fun k a ha hnl => ?_⟩
  · rcases h3 e he a ha with hn | ⟨b, hb, hf, hw⟩
    · exact Or.inl hn
    · exact Or.inr ⟨b, hb, hf.state, hf.cleared.1, hf.cleared.2, hf.cleared.3, hf.resolved.2.1, hf.resolved.2.2.1,
        hf.resolved.2.2.2.1, hf.resolved.2.2.2.2, hw, hf.id, hf.refCount, hf.pendingRecv, hf.recvFlow,
        hf.inFlightRecvData, hf.isPendingOpen⟩
  · obtain ⟨b, hb, hu⟩ := h4 k a ha hnl
    exact ⟨b, hb, hu.eq⟩

/-- non-vacuity: `handle_error(library GOAWAY PROTOCOL_ERROR)` on `Demo.d5` fails all three streams (the wake
    order shows the `swap_remove` walk: entry 0 is unlinked, the last entry — stream 5, waiter `q` — takes its
    place and is visited next, then stream 3, waiter `s1`) -/
example : ((Demo.d5.handleError (PErr.libraryGoAway PROTOCOL_ERROR)).1.stream 0).state =
      { inner := .closed (.error (.goAway [] PROTOCOL_ERROR .library)) } ∧
    ((Demo.d5.handleError (PErr.libraryGoAway PROTOCOL_ERROR)).1.stream 2).state =
      { inner := .closed (.error (.goAway [] PROTOCOL_ERROR .library)) } ∧
    (Demo.d5.handleError (PErr.libraryGoAway PROTOCOL_ERROR)).1.store.ids = [] ∧
    (Demo.d5.handleError (PErr.libraryGoAway PROTOCOL_ERROR)).1.wakes = ["q", "s1"] := by decide

/-- **the hypothesis `Good s` is no restriction**: it holds in every state reachable from the initial
    state of either role through the operations of the stream layer (ConnWakeP's `Reachable`) -/
theorem store_invariant_holds (s : Streams) (h : Reachable s) : Good s := reachable_good h

/-
  Non-vacuity.  `Demo.d5`: a client (default builder) whose peer allows 2 concurrent streams; three
  requests were made through `send_request`: streams 1 and 3 (keys 0, 1) are open, stream 5 (key 2)
  waits in `pending_open`; the body sender of stream 3 is parked for capacity (`s1`), the request
  future of stream 5 for its slot (`q`).  Everything below is evaluated by the kernel (`decide`).
-/
open Demo in
example : Good d5 ∧ d5.store.ids = [(1, 0), (3, 1), (5, 2)] ∧ d5.counts.isLocalInit 3 = true ∧
    (d5.stream 1).sendTask = some "s1" ∧ (d5.stream 2).openTask = some "q" ∧ (d5.stream 2).isPendingOpen = true ∧
    (d5.stream 0).state.isClosed = false ∧ (d5.stream 1).state.isClosed = false :=
  ⟨d5_good, by decide, by decide, by decide, by decide, by decide, by decide, by decide⟩

/-- GOAWAY(last = 1, NO_ERROR, debug [7]): stream 1 untouched, streams 3 and 5 failed with the peer's
    GOAWAY and unlinked, both waiters woken -/
example : (Demo.d5.recvGoAwayFrame 1 0 [7]).2 = .ok () ∧
    (Demo.d5.recvGoAwayFrame 1 0 [7]).1.store.ids = [(1, 0)] ∧
    ((Demo.d5.recvGoAwayFrame 1 0 [7]).1.stream 0).state = (Demo.d5.stream 0).state ∧
    ((Demo.d5.recvGoAwayFrame 1 0 [7]).1.stream 1).state = { inner := .closed (.error (.goAway [7] 0 .remote)) } ∧
    ((Demo.d5.recvGoAwayFrame 1 0 [7]).1.stream 2).state = { inner := .closed (.error (.goAway [7] 0 .remote)) } ∧
    (Demo.d5.recvGoAwayFrame 1 0 [7]).1.wakes = ["s1", "q"] := by decide

/-- GOAWAY(last = 2^31-1, …) — the first GOAWAY of a graceful shutdown: streams 1 and 3 run on
    (stream 3 keeps its parked waiter), stream 5, not yet opened, is failed although 5 ≤ last -/
example : (Demo.d5.recvGoAwayFrame 2147483647 0 [7]).2 = .ok () ∧
    (Demo.d5.recvGoAwayFrame 2147483647 0 [7]).1.store.ids = [(1, 0), (3, 1)] ∧
    ((Demo.d5.recvGoAwayFrame 2147483647 0 [7]).1.stream 1).state = (Demo.d5.stream 1).state ∧
    ((Demo.d5.recvGoAwayFrame 2147483647 0 [7]).1.stream 1).sendTask = some "s1" ∧
    ((Demo.d5.recvGoAwayFrame 2147483647 0 [7]).1.stream 2).state = { inner := .closed (.error (.goAway [7] 0 .remote)) } ∧
    (Demo.d5.recvGoAwayFrame 2147483647 0 [7]).1.wakes = ["q"] := by decide

end H2V.Props.C15Cover

#print axioms H2V.Props.C15Cover.goaway_fails_every_stream_above_cutoff
#print axioms H2V.Props.C15Cover.failed_state_carries_peer_reason
#print axioms H2V.Props.C15Cover.goaway_leaves_other_streams_untouched
#print axioms H2V.Props.C15Cover.handle_error_fails_every_linked_stream
#print axioms H2V.Props.C15Cover.store_invariant_holds
