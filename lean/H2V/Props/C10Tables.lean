import H2V.Model.HpackEnc
import H2V.Spec.HpackSync
/-
  C10, finite part: the static-index rules regenerated from the Rust source are sound w.r.t. the
  RFC 7541 static table. (Separate file so that lemma files can depend on it without a cycle.)
-/
namespace H2V.Props.C10
open H2V H2V.Model.Hpack

/-- every rule of `index_static` (regenerated from the source) points at a static-table entry of
    RFC 7541 Appendix A with that name, and claims a value match only when the value is the
    entry's value -/
def ruleSound (r : List Nat × Option (List Nat) × Nat × Bool) : Bool :=
  match Spec.Rfc7541.staticTable[r.2.2.1 - 1]? with
  | some (n, v) => r.2.2.1 ≥ 1 && n == r.1 && (if r.2.2.2 then r.2.1 == some v else true)
  | none => false

theorem index_static_sound : Generated.IndexStatic.rules.all ruleSound = true := by decide +kernel

end H2V.Props.C10
