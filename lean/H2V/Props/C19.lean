import H2V.Lemmas.ConnCountsPLocal
import H2V.Lemmas.ConnCountsPIdle
import H2V.Lemmas.ConnCountsPWitness
import H2V.Lemmas.ConnCountsPFree
import H2V.Lemmas.ConnCountsPQueueR
import H2V.Lemmas.ConnCountsPConn
/-
  C19 — finished streams are forgotten and an idle client connection closes itself.
  Property theorems only (lemmas: `H2V/Lemmas/ConnCountsP*.lean`, notes: `ConnCountsPNOTES.md`).
  The theorems are about the executable model `H2V/Model/Conn*.lean` of h2's stream layer and
  connection loop (validated line by line against the real code, see `Model/ConnNOTES.md`).
-/
namespace H2V.Props.C19
open H2V H2V.Model H2V.Model.Conn H2V.Lemmas.ConnCountsP

/-- **A released stream is removed at once.**  `Counts::transition_after` is the code every
    stream-touching operation of h2 ends with (`counts.transition(stream, ..)`).  Whatever the state
    before and whatever flag it is called with: afterwards the slab holds no entry under that key
    which `is_released()` (closed in both directions, nothing left to send, no handle, in no queue,
    not remembered as a reset stream) — such an entry has been taken out of the slab.  Corresponds
    to the candidate invariant "is_released ⇒ removed" of `ConnInv.lean` at the point where h2
    re-establishes it. -/
theorem released_entry_is_removed (s : Streams) (k : Nat) (b : Bool) (st : Stream)
    (h : (s.transitionAfter k b).store.get? k = some st) : st.isReleased = false :=
  transitionAfter_no_released s k b st h

/-- non-vacuity: a referenced stream survives `transition_after` (so the hypothesis is met) … -/
example : ((({ store := { slab := [{ key := 0, id := 1, refCount := 1 }], ids := [(1, 0)], nextKey := 1 } } : Streams).transitionAfter 0 false).store.get? 0).isSome = true := by
  decide
/-- … and an unreferenced, closed, flushed one is gone -/
example : ((({ store := { slab := [{ key := 0, id := 1, state := { inner := .closed .endStream } }], ids := [(1, 0)], nextKey := 1 } } : Streams).transitionAfter 0 false).store.get? 0).isSome = false := by
  decide

/-- **The memory of a locally reset stream is kept until it expires.**  `Ev s s'` is the closure of
    the elementary steps that every function of the stream layer is made of, *except* the expiry pass
    over `pending_reset_expired` (`clear_expired_reset_streams` / `clear_all_reset_streams`, which only
    `Connection::poll2` and `recv_eof` run).  Along any such evolution a stream that is remembered as
    locally reset (`reset_at` set, i.e. queued in `pending_reset_expired`) stays in the store with
    the flag set: late frames of the peer for it are recognised, and it is not released early. -/
theorem pending_reset_entry_kept {s s' : Streams} (h : Ev s s') (k : Nat) (hk : (s.stream k).resetAt = true) :
    (s'.stream k).resetAt = true ∧ (s'.store.get? k).isSome = true := by
  have := h.mono.resetAt k hk
  obtain ⟨x, hx, _⟩ := stream_resetAt_live this
  exact ⟨this, by rw [hx]; rfl⟩

/-- instances of the previous theorem: writing frames (`Prioritize::pop_frame`, all of it: DATA
    splitting, implicit resets, PUSH_PROMISE activation) and receiving a RST_STREAM keep it -/
theorem pending_reset_entry_kept_popFrame (fuel : Nat) (s : Streams) (maxLen k : Nat) (hk : (s.stream k).resetAt = true) :
    ((Streams.popFrame fuel s maxLen).1.stream k).resetAt = true :=
  (pending_reset_entry_kept (popFrame_ev fuel s maxLen) k hk).1
theorem pending_reset_entry_kept_recvReset (s : Streams) (id : Nat) (r : Reason) (k : Nat) (hk : (s.stream k).resetAt = true) :
    (((s.recvRecvReset id r).1.sendHandleError id).stream k).resetAt = true :=
  (pending_reset_entry_kept (.trans (recvRecvReset_ev s id r) (sendHandleError_ev _ id)) k hk).1

/-- non-vacuity: a state with a remembered reset stream -/
example : ((({ store := { slab := [{ key := 0, id := 1, resetAt := true }], ids := [(1, 0)], nextKey := 1 } } : Streams).stream 0).resetAt) = true := by
  decide

/-- **A stream that somebody still refers to is never forgotten, and forgetting one stream never
    disturbs another.**  `transition_after(k, ..)` keeps — with the same stream id and the same
    `ref_count` — every slab entry other than `k`, and `k` itself whenever a handle still refers to
    it (`ref_count > 0`: `StreamRef`, `OpaqueStreamRef`, a pending accept).  So a user handle never
    becomes a stale reference through the release path. -/
theorem referenced_entry_is_kept (s : Streams) (k j : Nat) (b : Bool) (x : Stream) (hx : s.store.get? j = some x)
    (hkeep : j ≠ k ∨ x.refCount ≠ 0) :
    ∃ x', (s.transitionAfter k b).store.get? j = some x' ∧ x'.refCount = x.refCount ∧ x'.id = x.id :=
  transitionAfter_keeps s k j b x hx hkeep

/-- non-vacuity: a closed, flushed stream with one handle left -/
example : ∃ x, ({ store := { slab := [{ key := 0, id := 1, refCount := 1, state := { inner := .closed .endStream } }], ids := [(1, 0)], nextKey := 1 } } : Streams).store.get? 0 = some x ∧ (0 ≠ 0 ∨ x.refCount ≠ 0) :=
  ⟨_, rfl, .inr (by decide)⟩

/-- **Stream storage is never reached through a stale queue entry — in every reachable state.**
    h2 links streams into intrusive queues by slab key (`pending_send`, `pending_capacity`,
    `pending_open`, `pending_window_updates`, `pending_reset_expired`); a queued key whose slab entry
    is gone would make `store.resolve(key)` panic ("dangling store key").  As long as no `assert!`
    has fired, for each of these five queues:
    * every queued key is a live slab entry whose link flag (`is_pending_*`, resp. `reset_at`) is set;
    * every live entry whose flag is set is in the queue (a flagged stream is not lost);
    * no key is queued twice.
    (`pending_accept` is not covered: its link flag is shared with the parent stream's
    `pending_push_promises` queue.) -/
theorem queues_hold_no_stale_keys {s : Streams} (h : Reach s) (hp : s.panicked = none) (q : QName) (hq : q ≠ .pendingAccept) :
    (∀ k ∈ s.getQ q, ∃ x, s.store.get? k = some x ∧ x.isQueued q = true) ∧
    (∀ k x, s.store.get? k = some x → x.isQueued q = true → k ∈ s.getQ q) ∧
    (s.getQ q).Nodup := by
  have hi := h.qok hp q hq
  exact ⟨fun k hk => (hi.mem k).mp hk, fun k x hx hf => (hi.mem k).mpr ⟨x, hx, hf⟩, hi.nodup⟩

/-- non-vacuity: after `send_request` the new stream sits in `pending_open` -/
example : Reach wS1 ∧ wS1.panicked = none ∧ wS1.prio.pendingOpen = [0] :=
  ⟨.step (.init (.client {} rfl)) (.sendRequest _ false wGet true none), by decide +kernel, by decide +kernel⟩

/-- **Idle close, step 1.**  `client::Connection::poll` on a connection with no counted stream and
    no handle besides the connection's own (`!has_streams_or_other_references()`) behaves like
    `go_away_now(NO_ERROR)` followed by the normal poll. -/
theorem idle_client_poll_starts_with_goaway (fuel : Nat) (c : Conn) (h : c.hasStreamsOrOtherReferences = false) :
    (c.clientPoll fuel).2 = (Conn.protoPoll fuel (c.goAwayNow NO_ERROR)).2 :=
  clientPoll_idle fuel c h

/-- **Idle close, step 2.**  After `go_away_now(NO_ERROR)` the connection is going away with
    `NO_ERROR` and `last_stream_id = last_processed_id`, it will close as soon as the frame is out
    (`close_now`), and the GOAWAY(NO_ERROR) frame is pending — unless exactly this GOAWAY had been
    announced before, in which case what was pending stays pending. -/
theorem idle_goaway_is_no_error (c : Conn) :
    (c.goAwayNow NO_ERROR).goAway.closeNow = true ∧
    (∃ ga, (c.goAwayNow NO_ERROR).goAway.goingAway = some ga ∧ ga.reason = NO_ERROR ∧
           ga.lastProcessedId = c.streams.recv.lastProcessedId) ∧
    ((c.goAwayNow NO_ERROR).goAway.pending =
        some { lastStreamId := c.streams.recv.lastProcessedId, reason := NO_ERROR, debugData := [] } ∨
     (c.goAway.goingAway = some { lastProcessedId := c.streams.recv.lastProcessedId, reason := NO_ERROR } ∧
      (c.goAwayNow NO_ERROR).goAway.pending = c.goAway.pending)) :=
  goAwayNow_noError c

/-- **Idle close, a complete run** (also the non-vacuity witness of step 1): a fresh client whose
    only `SendRequest` has been dropped is idle; one `poll` writes `GOAWAY(last=0, NO_ERROR)` behind
    the preface and SETTINGS, calls `poll_shutdown` on the transport and completes with `Ok(())`. -/
theorem idle_client_run :
    idleClient.hasStreamsOrOtherReferences = false ∧
    isDone (idleClient.clientPoll 50).2 = true ∧
    (idleClient.clientPoll 50).1.codec.io.tx = ["PREFACE", "S:0:0:-", "G:0:0:0:-"] ∧
    (idleClient.clientPoll 50).1.codec.io.shutdownCalled = true :=
  idleClient_run

/-- **The bookkeeping returns to the idle values — in every reachable state.**
    (`Reach`: see `H2V.Props.C05.slots_are_accounted_everywhere`.)  As long as no `assert!` has fired:
    * the counter of remembered reset streams is exactly the length of `pending_reset_expired`
      (positive statement for quirk Q2 of ConnNOTES.md, fixed in the real code): when the last
      remembered stream has expired the counter is 0 again;
    * when the store is empty (every stream closed, flushed, released), both concurrency counters
      are 0 — nothing is retained for finished streams;
    * the store never holds two entries under one key, and a key is never handed out twice
      (every key in the slab is below `next_key`): a handle that still holds a key cannot be
      redirected to another stream's entry. -/
theorem bookkeeping_returns_to_idle {s : Streams} (h : Reach s) (hp : s.panicked = none) :
    s.counts.numLocalResetStreams = s.recv.pendingResetExpired.length ∧
    (s.store.slab = [] → s.counts.numSendStreams = 0 ∧ s.counts.numRecvStreams = 0) ∧
    (s.store.slab.map (·.key)).Nodup ∧ (∀ x ∈ s.store.slab, x.key < s.store.nextKey) := by
  have hi := (h.inv.2.2 hp).1
  refine ⟨hi.reset, ?_, h.inv.1.nodup, h.inv.1.fresh⟩
  intro he
  have := hi.sum
  unfold cntAll at this
  rw [he] at this
  simp only [List.countP_nil] at this
  omega

/-- non-vacuity -/
example : Reach wS2 ∧ wS2.panicked = none := ⟨wS2_reach, wS2_facts.1⟩

/-- **FINDING (Q3 of ConnNOTES.md, real code, still open): a finished stream can stay in the slab
    for ever.**  A reachable state without panic (client, `max_concurrent_reset_streams = 0`, an
    upload larger than the connection window that is reset and whose handles are dropped while it
    is parked in `pending_capacity`, then a WINDOW_UPDATE) in which the only slab entry is closed,
    has `ref_count = 0`, is in none of the six queues and not in the id map — and another
    `poll_complete` leaves it there.  So "`is_released()` ⇒ removed" holds at every
    `transition_after` (`released_entry_is_removed`) but NOT between operations: the `continue` of
    `Prioritize::assign_connection_capacity` drops the stream from `pending_capacity` without a
    `transition`.  (The counters are unaffected: `bookkeeping_returns_to_idle`.) -/
theorem finished_stream_retained_counterexample :
    Reach q3g.1 ∧ q3g.1.panicked = none ∧
    (q3f.1.store.slab.map fun x => (x.id, x.refCount, x.isPendingSendCapacity)) = [(1, 0, true)] ∧
    q3g.1.store.ids = [] ∧
    (q3g.1.store.slab.map fun x => (x.id, x.refCount, x.isClosed,
        x.isPendingSend || x.isPendingSendCapacity || x.isPendingOpen || x.isPendingAccept || x.isPendingWindowUpdate || x.resetAt))
      = [(1, 0, true, false)] ∧
    (q3g.1.prio.pendingSend, q3g.1.prio.pendingCapacity, q3g.1.prio.pendingOpen) = ([], [], []) ∧
    (q3g.1.recv.pendingWindowUpdates, q3g.1.recv.pendingAccept, q3g.1.recv.pendingResetExpired) = ([], [], []) ∧
    (wPoll q3g).1.store.slab.length = 1 :=
  ⟨q3_reach, q3_counterexample⟩

/-- **FINDING (Q1 of ConnNOTES.md, real code, still open): a stream is forgotten before its
    RST_STREAM is written, and then reset a second time through a second slab entry.**  A reachable
    state without panic (client, `max_concurrent_reset_streams = 0`, both handles of a request
    dropped while the response is in flight): `transition_after` unlinks the stream from the id
    map although its implicit RST_STREAM(CANCEL) is still to be generated (`Stream::is_closed()` is
    already true for `ScheduledLibraryReset` with an empty queue); the response HEADERS is then "for a
    forgotten stream" (`STREAM_CLOSED`), `Inner::send_reset` inserts a SECOND slab entry with the
    same stream id, the bogus reset is counted in `num_local_error_reset_streams`, and the peer
    receives `RST_STREAM(CANCEL)` and `RST_STREAM(STREAM_CLOSED)` for stream 1. -/
theorem stream_forgotten_too_early_counterexample :
    Reach q1d.1 ∧ q1d.1.panicked = none ∧
    q1c.1.store.ids = [] ∧
    (q1c.1.store.slab.map fun x => (x.id, x.pendingSend.length, x.isPendingSend)) = [(1, 0, true)] ∧
    (q1d.1.store.slab.filter (·.id == 1)).length = 2 ∧
    q1d.1.counts.numLocalErrorResetStreams = 1 ∧
    q1e.2.2.tx.drop 3 = ["R:1:8", "R:1:5"] :=
  ⟨q1_reach, q1_counterexample.1, q1_counterexample.2.1, q1_counterexample.2.2.1, q1_counterexample.2.2.2.2.1,
   q1_counterexample.2.2.2.2.2.1, q1_counterexample.2.2.2.2.2.2⟩

/-- **The store and its queues are consistent in every state of a running connection.**
    (`ConnReach`: every connection state reachable from a fresh client or server connection by polls
    of the connection future — whatever the peer sent —, user calls and transport events; see
    `H2V.Props.C05.limits_hold_in_every_connection_state`.)  As long as no `assert!` has fired: no
    two slab entries share a key and no key is reused; the counter of remembered reset streams is the
    length of `pending_reset_expired`; and each of the five scheduling queues holds exactly the live
    entries whose link flag is set, each once — no stale key anywhere. -/
theorem store_is_consistent_in_every_connection_state {c : Conn} (h : ConnReach c) (hp : c.streams.panicked = none) :
    (c.streams.store.slab.map (·.key)).Nodup ∧ (∀ x ∈ c.streams.store.slab, x.key < c.streams.store.nextKey) ∧
    c.streams.counts.numLocalResetStreams = c.streams.recv.pendingResetExpired.length ∧
    (∀ q, q ≠ QName.pendingAccept →
      (∀ k, k ∈ c.streams.getQ q ↔ ∃ x, c.streams.store.get? k = some x ∧ x.isQueued q = true) ∧ (c.streams.getQ q).Nodup) := by
  have hb := bookkeeping_returns_to_idle h.reach hp
  exact ⟨hb.2.2.1, hb.2.2.2, hb.1, fun q hne => ⟨(h.reach.qok hp q hne).mem, (h.reach.qok hp q hne).nodup⟩⟩

/-- non-vacuity: a fresh client after its first `poll` -/
example : ConnReach ((Conn.init {}).clientPoll 50).1 ∧ ((Conn.init {}).clientPoll 50).1.streams.panicked = none :=
  ⟨.step (.client {} rfl) (.clientPoll 50 _), by decide +kernel⟩

#print axioms released_entry_is_removed
#print axioms pending_reset_entry_kept
#print axioms pending_reset_entry_kept_popFrame
#print axioms pending_reset_entry_kept_recvReset
#print axioms referenced_entry_is_kept
#print axioms queues_hold_no_stale_keys
#print axioms idle_client_poll_starts_with_goaway
#print axioms idle_goaway_is_no_error
#print axioms idle_client_run
#print axioms bookkeeping_returns_to_idle
#print axioms finished_stream_retained_counterexample
#print axioms stream_forgotten_too_early_counterexample
#print axioms store_is_consistent_in_every_connection_state

end H2V.Props.C19
