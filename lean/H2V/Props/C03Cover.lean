import H2V.Lemmas.ConnPartPBooks2
import H2V.Props.C03
import H2V.Lemmas.ConnWakePBasic
/-
  C03 (cover) — the STREAM-level conservation theorems of `H2V/Props/C03.lean` (7–9) carry the hypothesis
  `ReachOk`: "in this history `apply_local_settings` and `Inner::send_reset` did not fail".  Here the
  hypothesis is REMOVED at the level where it can be: the connection.  A failure of either call is a
  connection error (FLOW_CONTROL_ERROR / ENHANCE_YOUR_CALM); inside `Connection::poll` the failing call is
  the last thing the stream layer sees before `handle_go_away` makes the connection `Dead` (ConnCtlP:
  `go_away_now` has run, or the state has left `Open`; a dead connection reads no frame any more and
  stays dead).  Hence, for EVERY reachable connection:
        the connection is dead,  or  every stream's receive window is conserved.
  Property theorems only; lemmas: `H2V/Lemmas/ConnPartPBooks*.lean`, notes: `H2V/Lemmas/ConnPartPNOTES.md`.

  Vocabulary.  `SReach T H c`: the connection `c : Conn` (codec, SETTINGS/PING/GOAWAY machines, stream
  layer) is reachable from `Conn.init cfg` / `Conn.initServer cfg …` (legal window sizes) through any
  sequence of `proto::Connection::poll` / `client::Connection::poll` (any fuel; the scripted transport is
  part of the state, and an `env` step changes it — and everything else except the stream layer, the
  SETTINGS bookkeeping, `go_away` and the connection state — arbitrarily), `set_target_window_size`,
  `set_initial_window_size` (≤ 2^31-1), graceful / abrupt shutdown, pings, and ANY call the handles make on
  the stream layer (`COp.handle op`, any arguments; the two calls only `poll` makes are excluded by
  `op.ok`).  `T` = the connection window configured last, `H` = the largest so far.  This is ConnRecvP's
  `CReach` with a tamer environment step (`sreach_is_creach`).
  `Dead c` (ConnCtlP) = `go_away.close_now ∧ going_away`, or `state ≠ Open`.
  `ReachOk g s`, `Inv`, `linked`, `cA`, `cI`, `cW`: see `H2V/Props/C03.lean`.
-/
set_option autoImplicit false
namespace H2V.Props.C03Cover
open H2V H2V.Model H2V.Model.Conn H2V.Lemmas.ConnRecvP H2V.Lemmas.ConnPartP
open H2V.Lemmas.ConnCtlP (Dead)

/-- **the stream layer of every reachable connection is `ReachOk`, or the connection is dead.**  So
    theorems 7–9 of `H2V/Props/C03.lean` (`stream_window_conserved`, `stream_window_update_exact`,
    `stream_window_restored`) apply to the stream layer of every connection that is still alive, without
    any assumption about `apply_local_settings` / `Inner::send_reset`. -/
theorem stream_layer_ok_or_connection_dead {T H : Nat} {c : Conn} (h : SReach T H c) :
    Dead c ∨ ∃ g, ReachOk g c.streams ∧ g.target = T ∧ g.hiTarget = H := by
  rcases sreach_bk h with ⟨hg, -⟩ | hd
  · exact Or.inr hg
  · exact Or.inl hd

/-- **every stream's receive window is conserved, or the connection is dying** (theorem 7 of C03 at
    connection level, unconditionally): for every reachable connection that is not dead, for every
    stream in the store: the window the peer sees never exceeds the stream's `available`; for a stream
    the protocol still knows and that is not closed, `window + in_flight ≤ init_window_sz`,
    `available + in_flight ≤ init_window_sz`, with EQUALITY while the `RecvStream` handle exists. -/
theorem every_stream_window_conserved_or_connection_dead {T H : Nat} {c : Conn} (h : SReach T H c) :
    Dead c ∨ ∀ x ∈ c.streams.store.slab,
      x.recvFlow.windowSize.val ≤ x.recvFlow.available.val ∧
      (linked c.streams x.key → x.state.isClosed = false →
        x.recvFlow.windowSize.val + (x.inFlightRecvData : Int) ≤ (c.streams.recv.initWindowSz : Int) ∧
        x.recvFlow.available.val + (x.inFlightRecvData : Int) ≤ (c.streams.recv.initWindowSz : Int) ∧
        (x.isRecv = true →
          x.recvFlow.available.val + (x.inFlightRecvData : Int) = (c.streams.recv.initWindowSz : Int))) := by
  rcases sreach_books h with hd | ⟨g, hi, -, -⟩
  · exact Or.inl hd
  · right
    intro x hx
    have ok := hi.streams rfl x hx
    refine ⟨ok.wa, fun hl hc => ?_⟩
    rcases ok.bud hl with hcl | hb
    · rw [hc] at hcl; cases hcl
    · exact ⟨by have := ok.wa; have := hb.1; omega, hb.1, hb.2⟩

/-- **a stream WINDOW_UPDATE credits exactly what is owed, and a stream window returns to its configured
    size — or the connection is dying** (theorems 8 and 9 of C03 at connection level, unconditionally): for every
    reachable connection that is not dead, (8) for a receive-streaming stream whose `unclaimed_capacity()` is
    `Some(incr)`: `incr = available − window` exactly and `inc_window(incr)` makes the window equal to
    `available`; (9) for a linked, open stream whose `RecvStream` exists, with nothing in flight and at least half
    of the window used by the peer: `available = init_window_sz` and a WINDOW_UPDATE of exactly
    `init_window_sz − window` is owed. -/
theorem stream_window_updates_exact_or_connection_dead {T H : Nat} {c : Conn} (h : SReach T H c) :
    Dead c ∨
    ((∀ x ∈ c.streams.store.slab, x.state.isRecvStreaming = true → ∀ incr, x.recvFlow.unclaimedCapacity = some incr →
        (incr : Int) = x.recvFlow.available.val - x.recvFlow.windowSize.val ∧
        x.recvFlow.incWindow incr = ({ x.recvFlow with windowSize := ⟨x.recvFlow.available.val⟩ }, .ok ())) ∧
     (∀ x ∈ c.streams.store.slab, linked c.streams x.key → x.state.isClosed = false → x.isRecv = true →
        x.inFlightRecvData = 0 → 2 * x.recvFlow.windowSize.val ≤ (c.streams.recv.initWindowSz : Int) →
        x.recvFlow.windowSize.val < (c.streams.recv.initWindowSz : Int) →
        x.recvFlow.available.val = (c.streams.recv.initWindowSz : Int) ∧
        x.recvFlow.unclaimedCapacity =
          some ((c.streams.recv.initWindowSz : Int) - x.recvFlow.windowSize.val).toNat)) := by
  rcases stream_layer_ok_or_connection_dead h with hd | ⟨g, hg, -, -⟩
  · exact Or.inl hd
  · exact Or.inr ⟨fun x hx hrs incr hu => H2V.Props.C03.stream_window_update_exact hg hx hrs hu,
      fun x hx hl hc hr h0 hhalf hlt => H2V.Props.C03.stream_window_restored hg hx hl hc hr h0 hhalf hlt⟩

/-- **the two failing calls are connection errors, and they kill the connection**:
    `apply_local_settings` fails only with `Error::GoAway` (never a stream error; `Inner::send_reset`'s
    error type is `proto::error::GoAway` already); `handle_poll2_result` turns a connection error — and
    a failed `Inner::send_reset` — into `handle_go_away`, after which the connection is dead. -/
theorem failing_calls_kill_the_connection (c : Conn) :
    (∀ vals s' e, c.streams.applyLocalSettingsFrame vals = (s', .error e) → ∃ d rs i, e = .goAway d rs i) ∧
    (∀ d rs i, Dead (c.handlePoll2Result (.error (.goAway d rs i))).1) ∧
    (∀ id reason s g, c.streams.innerSendReset id reason = (s, .error g) →
      Dead (c.handlePoll2Result (.error (.reset id reason .library))).1) := by
  refine ⟨fun vals s' e h => applyLocalSettingsFrame_err _ _ _ _ h,
    fun d rs i => H2V.Lemmas.ConnCtlP.handlePoll2Result_kills c _ (Or.inr ⟨d, rs, i, rfl⟩), fun id reason s g hf => ?_⟩
  have e : c.handlePoll2Result (.error (.reset id reason .library)) =
      (({ c with streams := s } : Conn).handleGoAway g.reason (Http.str g.debugData) .library, .ok ()) := by
    show (match c.streams.innerSendReset id reason with
       | (s, .ok _) => (({ c with streams := s } : Conn), (Except.ok () : Except PErr Unit))
       | (s, .error g) => (({ c with streams := s } : Conn).handleGoAway g.reason (Http.str g.debugData) .library, .ok ())) = _
    rw [hf]
  rw [e]
  exact (H2V.Lemmas.ConnCtlP.handleGoAway_spec _ _ _ _).1

/-- **a dead connection stays dead and reads nothing**: through every further `Connection::poll`
    (either flavour, any fuel) the connection stays dead. (ConnCtlP's `protoPollT_dead` adds: the only
    frames it still hands to the codec are GOAWAYs.) -/
theorem dead_connection_stays_dead (fuel : Nat) (c : Conn) (hd : Dead c) :
    Dead (Conn.protoPoll fuel c).1 ∧ Dead (Conn.clientPoll fuel c).1 :=
  ⟨protoPoll_dead fuel c hd, clientPoll_dead fuel c hd⟩

/-- **`SReach` connections are `CReach` connections**: the connection-level theorems of C03
    (`every_connection_window_conserved`: `available + in_flight = T`, never over-credited) hold for them
    dead or alive. -/
theorem sreach_is_creach {T H : Nat} {c : Conn} (h : SReach T H c) : CReach T H c := h.creach

/-- a stream layer whose budget of locally caused resets is zero (`Builder::max_local_error_reset_streams(
    Some(0))`; with the default 1024 the same state is reached after 1024 stream errors) -/
def exNoQuota : Streams :=
  { counts := { maxLocalErrorResetStreams := some 0 },
    actions := { recv := { flow := ⟨⟨65535⟩, ⟨65535⟩⟩ } } }

/-- **why the hypothesis cannot simply be dropped at the level of `Reach`** (any order of stream-layer
    calls): when `Inner::send_reset(id, …)` fails for an id the store does not know (quota of locally
    caused resets exhausted → ENHANCE_YOUR_CALM), the entry it has just inserted — `Stream::new(id, 0, 0)`:
    receive window ZERO whatever SETTINGS_INITIAL_WINDOW_SIZE is — stays in the store, `Idle`, linked, with
    `is_recv` set: a `Reach` state in which the stream-level equality `available + in_flight =
    init_window_sz` is false (0 ≠ 65 535).  In a connection this state lives for the rest of ONE
    `handle_poll2_result` call: `handle_go_away` follows at once (`failing_calls_kill_the_connection`),
    which is why the connection-level theorems above need no such hypothesis. -/
theorem stream_books_without_ok_counterexample :
    Reach Ghost.init ((Op.innerSendReset 1 5).apply exNoQuota) ∧
    ¬ (Op.innerSendReset 1 5).ok exNoQuota ∧
    ∃ x ∈ ((Op.innerSendReset 1 5).apply exNoQuota).store.slab,
      linked ((Op.innerSendReset 1 5).apply exNoQuota) x.key ∧ x.state.isClosed = false ∧ x.isRecv = true ∧
      x.recvFlow.available.val + (x.inFlightRecvData : Int) ≠
        (((Op.innerSendReset 1 5).apply exNoQuota).recv.initWindowSz : Int) := by
  refine ⟨.step (.innerSendReset 1 5) (.init ⟨rfl, rfl, rfl, rfl, rfl⟩) trivial, ?_, ?_⟩
  · intro h
    have : isOkB (exNoQuota.innerSendReset 1 5).2 = true := (isOkB_iff _).2 h
    revert this; decide
  · cases hg : (exNoQuota.innerSendReset 1 5).1.store.get? 0 with
    | none => exact absurd hg (by decide)
    | some x =>
      have hx : (exNoQuota.innerSendReset 1 5).1.stream 0 = x := H2V.Lemmas.ConnWakeP.stream_eq_of_get? hg
      refine ⟨x, H2V.Lemmas.ConnWakeP.Store.get?_mem hg, ?_, ?_, ?_, ?_⟩
      · rw [← hx]
        show (0 : Nat) ∈ (exNoQuota.innerSendReset 1 5).1.store.ids.map (·.2)
        decide
      · rw [← hx]; decide
      · rw [← hx]; decide
      · rw [← hx]
        show _ ≠ (((exNoQuota.innerSendReset 1 5).1.recv.initWindowSz : Nat) : Int)
        decide

/-- non-vacuity: a new client connection, the window raised to 200 000, polled once, one request made
    through the `SendRequest` handle; it is reachable, and it is not dead (so the right-hand side of
    the theorems above is what holds) -/
def exConn : Conn :=
  (COp.handle (.sendRequest false [] false none)).apply
    ((COp.clientPoll 100).apply ((COp.setTargetWindowSize 200000).apply (Conn.init {})))

theorem exConn_reach : SReach 200000 200000 exConn :=
  .step (.handle (.sendRequest false [] false none))
    (.step (.clientPoll 100)
      (.step (.setTargetWindowSize 200000) (.client {} ⟨fun _ h => (nomatch h), fun _ h => (nomatch h)⟩)
        (show (200000 : Nat) ≤ 2147483647 by decide) (fun _ h => nomatch h))
      trivial (fun _ h => nomatch h))
    ⟨trivial, rfl⟩ (fun o h => by cases h; trivial)

example : ¬ Dead exConn ∧ exConn.streams.store.slab.length = 1 := by
  refine ⟨?_, by decide⟩
  rintro (⟨h, -⟩ | h)
  · revert h; decide
  · exact h (by decide)

end H2V.Props.C03Cover

#print axioms H2V.Props.C03Cover.stream_layer_ok_or_connection_dead
#print axioms H2V.Props.C03Cover.every_stream_window_conserved_or_connection_dead
#print axioms H2V.Props.C03Cover.stream_window_updates_exact_or_connection_dead
#print axioms H2V.Props.C03Cover.failing_calls_kill_the_connection
#print axioms H2V.Props.C03Cover.dead_connection_stays_dead
#print axioms H2V.Props.C03Cover.sreach_is_creach
#print axioms H2V.Props.C03Cover.stream_books_without_ok_counterexample
