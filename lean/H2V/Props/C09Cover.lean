import H2V.Lemmas.ConnPartPRstData
/-
  C09 (cover) — "violations confined to one stream get at least a RST_STREAM while other streams keep
  working": the RST_STREAM is really OWED — queued on the stream, the stream scheduled in the connection's
  `pending_send` queue, and it comes out of `pop_frame` — for EVERY stream-level error of the receive
  path, with the code the error carries; the other streams' entries are kept.  Closes the gap left by
  `C09.stream_errors_are_contained` (which shows that the error is answered by `reset_on_recv_stream_err`
  and that the connection lives, but not what that call leaves behind).
  Property theorems only; lemmas: `H2V/Lemmas/ConnPartPRst*.lean`, notes: `H2V/Lemmas/ConnPartPNOTES.md`.

  The receive path of h2 has TWO dispatchers for a stream error `Err(Error::Reset(id, reason, Library))`:
    (1) in place — `Inner::recv_headers / recv_data / recv_window_update / recv_push_promise` end with
        `actions.reset_on_recv_stream_err(buffer, stream, counts, res)`;
    (2) the few that LEAVE `Inner::recv_*` (`escaping_stream_errors` lists them all) travel up to
        `Connection::handle_poll2_result`, which calls `Inner::send_reset(id, reason)`.
  Both run, after the quota check (`max_local_error_reset_streams`, C18 `error_reset_flood_is_cut_off`),
  `send.send_reset(reason, initiator, …); recv.enqueue_reset_expiration(stream); stream.notify_recv()`.

  Vocabulary.  `KeysBelow s.store`: every slab key is below `next_key` (every reachable state:
  `C08.keys_below_next`).  `QOK .pendingSend s`: the connection's `pending_send` queue holds exactly the
  entries whose `is_pending_send` link is set (every reachable un-panicked state: ConnCountsP `Reach.qok`,
  quoted as `C19.queues_hold_no_stale_keys`).  `CoreEq a b`: key, id, state, `pending_send`, `ref_count`
  equal.  `st.isSendReady`: not waiting in `pending_open`, not an unannounced pushed stream.
-/
set_option autoImplicit false
namespace H2V.Props.C09Cover
open H2V H2V.Model H2V.Model.Conn H2V.Lemmas.ConnResetP H2V.Lemmas.ConnPartP

/-- **(1) a stream error answered in place leaves the RST_STREAM owed.**  Stream entry `st` at key `k`,
    not reset yet and not (closed with nothing unsent), quota not exhausted.  After
    `reset_on_recv_stream_err(Err(Reset(_, reason, init)))`: the result is `Ok(())` (the connection goes
    on); the entry is still in the slab, closed with `Reset(st.id, reason, init)`; its queue is exactly
    `[RST_STREAM(reason)]` — everything else it had queued is discarded (`[HEADERS, RST_STREAM(reason)]`
    for a stream still waiting in `pending_open`); if the stream is send-ready its `is_pending_send` link
    is set and — the queue being consistent, no `assert!` having fired — it IS in the connection's
    `pending_send` queue, so `pop_frame` will reach it (`owed_rst_stream_is_emitted`);
    every OTHER entry that exists afterwards kept key, id, state, queue and handle count, and every
    other entry that had a frame queued still exists (an entry that disappears was closed, unreferenced
    and had nothing queued: released by the capacity hand-out of `reclaim_all_capacity`). -/
theorem stream_error_queues_rst_stream (s : Streams) (k sid : Nat) (reason : Reason) (init : Initiator) (st : Stream)
    (hkb : KeysBelow s.store) (hg : s.store.get? k = some st)
    (hq : s.counts.canIncNumLocalErrorResets = true) (hr : st.state.isReset = false)
    (hne : (st.state.isClosed && (st.pendingSend.isEmpty && st.bufferedSendData == 0)) = false) :
    (s.resetOnRecvStreamErr k (.error (.reset sid reason init))).2 = .ok () ∧
    (∃ st', (s.resetOnRecvStreamErr k (.error (.reset sid reason init))).1.store.get? k = some st' ∧ st'.id = st.id ∧
      st'.state = ⟨.closed (.error (.reset st.id reason init))⟩ ∧
      st'.pendingSend = (if st.isPendingOpen then st.pendingSend.head?.toList else []) ++ [.reset reason] ∧
      (st.isSendReady = true → st'.isPendingSend = true ∧
        (H2V.Lemmas.ConnCountsP.QOK .pendingSend s →
          (s.resetOnRecvStreamErr k (.error (.reset sid reason init))).1.panicked = none →
          k ∈ (s.resetOnRecvStreamErr k (.error (.reset sid reason init))).1.prio.pendingSend))) ∧
    (∀ k' st'', k' ≠ k → k' < s.store.nextKey →
      (s.resetOnRecvStreamErr k (.error (.reset sid reason init))).1.store.get? k' = some st'' →
      ∃ st0, s.store.get? k' = some st0 ∧ CoreEq st0 st'') ∧
    (∀ k' st0, k' ≠ k → s.store.get? k' = some st0 → st0.pendingSend ≠ [] →
      ∃ st'', (s.resetOnRecvStreamErr k (.error (.reset sid reason init))).1.store.get? k' = some st'' ∧ CoreEq st0 st'') :=
  resetOnRecvStreamErr_owes s k sid reason init st hkb hg hq hr hne

/-- **instance of (1): a WINDOW_UPDATE that overflows a stream's send window** (RFC 9113 §6.9.1, the
    example of `C09.stream_errors_are_contained`).  `Send::recv_stream_window_update` resets the stream
    FIRST (`send_reset(FLOW_CONTROL_ERROR)`) and then hands the stream error to the dispatcher, which
    finds the stream reset and queues nothing more.  Stream `st` (key `k`, stream id `id ≠ 0`), not in
    `pending_open`, still sending (or with data buffered), not reset, quota not exhausted, the increment
    taking the window beyond 2^31-1: the frame's result is `Ok(())`, RST_STREAM(FLOW_CONTROL_ERROR) is
    the stream's only queued frame, the stream is scheduled, the other streams are kept. -/
theorem window_update_overflow_queues_rst_stream (s : Streams) (id inc k : Nat) (st : Stream) (h0 : id ≠ 0)
    (hk : s.store.findKey? id = some k) (hg : s.store.get? k = some st) (hp : st.isPendingOpen = false)
    (hc : ¬ (st.state.isSendClosed = true ∧ st.bufferedSendData = 0))
    (ho : ¬ (inI32 (st.sendFlow.windowSize.val + u32AsI32 inc) = true ∧
            st.sendFlow.windowSize.val + u32AsI32 inc ≤ (Generated.Consts.MAX_WINDOW_SIZE : Int)))
    (hkb : KeysBelow s.store) (hr : st.state.isReset = false)
    (hq : s.counts.canIncNumLocalErrorResets = true) :
    (s.recvWindowUpdate id inc).2 = .ok () ∧
    (∃ st', (s.recvWindowUpdate id inc).1.store.get? k = some st' ∧ st'.id = st.id ∧
      st'.state = ⟨.closed (.error (.reset st.id FLOW_CONTROL_ERROR .library))⟩ ∧
      st'.pendingSend = (if st.isPendingOpen then st.pendingSend.head?.toList else []) ++ [.reset FLOW_CONTROL_ERROR] ∧
      (st.isSendReady = true → st'.isPendingSend = true ∧
        (H2V.Lemmas.ConnCountsP.QOK .pendingSend s → (s.recvWindowUpdate id inc).1.panicked = none →
          k ∈ (s.recvWindowUpdate id inc).1.prio.pendingSend))) ∧
    (∀ k' st'', k' ≠ k → k' < s.store.nextKey → (s.recvWindowUpdate id inc).1.store.get? k' = some st'' →
      ∃ st0, s.store.get? k' = some st0 ∧ CoreEq st0 st'') ∧
    (∀ k' st0, k' ≠ k → s.store.get? k' = some st0 → st0.pendingSend ≠ [] →
      ∃ st'', (s.recvWindowUpdate id inc).1.store.get? k' = some st'' ∧ CoreEq st0 st'') :=
  recvWindowUpdate_overflow_owes s id inc k st h0 hk hg hp hc ho hkb hr hq

/-- **instance of (1): the entry point `Inner::recv_data` as a whole.**  When `Recv::recv_data` answers a stream
    error `Reset(sid, reason, init)` for a DATA frame on a known stream (DATA beyond the stream's window →
    FLOW_CONTROL_ERROR, more DATA than `content-length` → PROTOCOL_ERROR, …) — `s1`/`st1` being the stream
    layer / the stream's entry at that moment — `Inner::recv_data` gives the frame's octets back to the
    connection window, runs the dispatcher inside the `transition` closure, then `transition_after`: its result
    is `Ok(())`, and in the state it returns the RST_STREAM(reason) is the stream's only queued frame, the
    stream is scheduled (and in the queue, the queue of the INITIAL state being consistent), the other entries
    are kept.  (`recv_headers` / `recv_push_promise` have the same shape: `transition(closure ending in
    reset_on_recv_stream_err)`; not spelled out.) -/
theorem recv_data_stream_error_queues_rst_stream (s : Streams) (id : Nat) (p : Bytes) (eos : Bool) (pad : Option Nat)
    (k : Nat) (s1 : Streams) (sid : Nat) (reason : Reason) (init : Initiator) (st1 : Stream)
    (hf : s.store.findKey? id = some k)
    (h1 : s.recvRecvData k p eos pad = (s1, .error (.reset sid reason init)))
    (hkb : KeysBelow s1.store) (hg : s1.store.get? k = some st1)
    (hq : s1.counts.canIncNumLocalErrorResets = true) (hr : st1.state.isReset = false)
    (hne : (st1.state.isClosed && (st1.pendingSend.isEmpty && st1.bufferedSendData == 0)) = false) :
    (s.recvData id p eos pad).2 = .ok () ∧
    (∃ st', (s.recvData id p eos pad).1.store.get? k = some st' ∧ st'.id = st1.id ∧
      st'.state = ⟨.closed (.error (.reset st1.id reason init))⟩ ∧
      st'.pendingSend = (if st1.isPendingOpen then st1.pendingSend.head?.toList else []) ++ [.reset reason] ∧
      (st1.isSendReady = true → st'.isPendingSend = true ∧
        (H2V.Lemmas.ConnCountsP.QOK .pendingSend s → (s.recvData id p eos pad).1.panicked = none →
          k ∈ (s.recvData id p eos pad).1.prio.pendingSend))) ∧
    (∀ k' st'', k' ≠ k → k' < s1.store.nextKey → (s.recvData id p eos pad).1.store.get? k' = some st'' →
      ∃ st0, s1.store.get? k' = some st0 ∧ CoreEq st0 st'') ∧
    (∀ k' st0, k' ≠ k → s1.store.get? k' = some st0 → st0.pendingSend ≠ [] →
      ∃ st'', (s.recvData id p eos pad).1.store.get? k' = some st'' ∧ CoreEq st0 st'') :=
  recvData_stream_error_owes s id p eos pad k s1 sid reason init st1 hf h1 hkb hg hq hr hne

/-- **when no RST_STREAM is queued — and why that is right.**  `Send::send_reset` leaves a stream alone
    that is reset already (`state.is_reset()`: by us — its RST_STREAM is queued or has gone out, a second
    one must not follow, C17 — or by the peer — none is owed), and on a stream that is closed with
    nothing unsent (END_STREAM both ways, or an earlier GOAWAY/IO error) it only records the reason. -/
theorem no_rst_stream_for_reset_or_finished_stream (s : Streams) (k : Nat) (reason : Reason) (init : Initiator) :
    ((s.stream k).state.isReset = true → s.sendSendReset k reason init = s) ∧
    ((s.stream k).state.isReset = false →
      ((s.stream k).state.isClosed && ((s.stream k).pendingSend.isEmpty && (s.stream k).bufferedSendData == 0)) = true →
      s.sendSendReset k reason init = s.modStreamW k fun st => st.setReset reason init) :=
  sendSendReset_no_rst s k reason init

/-- **(2) the stream errors that LEAVE the receive entry points — all of them.**  `recv_reset` and
    `recv_window_update` never answer a stream error (`reset_on_recv_stream_err` itself never hands one
    on); `recv_data` only STREAM_CLOSED for a stream the id map has forgotten (nothing but connection flow
    control has run: the store is untouched); `recv_headers` the same (client; nothing at all has run), and
    PROTOCOL_ERROR for trailers without END_STREAM (the `return Err(..)` out of the `transition` closure);
    `recv_push_promise` only REFUSED_STREAM for the promised stream, when the initiating stream is one we
    have reset.  Each carries the frame's own stream id (the promised id) and `Initiator::Library`. -/
theorem escaping_stream_errors (s : Streams) (sid : Nat) (rs : Reason) (i : Initiator) :
    (∀ id reason, (s.recvReset id reason).2 ≠ .error (.reset sid rs i)) ∧
    (∀ id inc, (s.recvWindowUpdate id inc).2 ≠ .error (.reset sid rs i)) ∧
    (∀ id p eos pad, (s.recvData id p eos pad).2 = .error (.reset sid rs i) →
      s.store.findKey? id = none ∧ sid = id ∧ rs = STREAM_CLOSED ∧ i = .library ∧
      (s.recvData id p eos pad).1.store = s.store) ∧
    (∀ hd, (s.recvHeaders hd).2 = .error (.reset sid rs i) →
      sid = hd.sid ∧ i = .library ∧
      ((rs = STREAM_CLOSED ∧ s.store.findKey? hd.sid = none ∧ s.counts.isServer = false ∧ (s.recvHeaders hd).1 = s) ∨
       (rs = PROTOCOL_ERROR ∧ hd.eos = false))) ∧
    (∀ id hd, (s.recvPushPromise id hd).2 = .error (.reset sid rs i) →
      sid = hd.sid ∧ rs = REFUSED_STREAM ∧ i = .library ∧
      ∃ k, s.store.findKey? id = some k ∧ (s.stream k).state.isLocalError = true) :=
  ⟨fun id reason => recvReset_noStreamErr s id reason sid rs i,
   fun id inc => recvWindowUpdate_noStreamErr s id inc sid rs i,
   fun id p eos pad h => recvData_streamErr s id p eos pad sid rs i h,
   fun hd h => recvHeaders_streamErr s hd sid rs i h,
   fun id hd h => recvPushPromise_streamErr s id hd sid rs i h⟩

/-- **(2) … are handed to `Inner::send_reset`** by `Connection::handle_poll2_result`; a quota failure
    there becomes the connection error ENHANCE_YOUR_CALM (`handle_go_away`). -/
theorem escaped_stream_error_reaches_send_reset (c : Conn) (id : Nat) (reason : Reason) :
    c.handlePoll2Result (.error (.reset id reason .library)) =
      (match c.streams.innerSendReset id reason with
       | (s, .ok _) => ({ c with streams := s }, .ok ())
       | (s, .error g) => (({ c with streams := s }).handleGoAway g.reason (Http.str g.debugData) .library, .ok ())) :=
  handlePoll2Result_reset c id reason

/-- **(2) `Inner::send_reset(id, reason)` for a stream the id map does not know** (STREAM_CLOSED for a
    forgotten stream, REFUSED_STREAM for a promised one): a fresh entry is created under the next key and
    owes RST_STREAM(id, reason): closed with `Reset(id, reason, Library)`, queue `[RST_STREAM(reason)]`,
    scheduled; every entry that was there before and still is kept key, id, state, queue and handle
    count; every entry that had a frame queued still is there. -/
theorem escaped_error_on_unknown_stream_queues_rst_stream (s : Streams) (id : Nat) (reason : Reason)
    (hf : s.store.findKey? id = none) (hkb : KeysBelow s.store)
    (hq : s.counts.canIncNumLocalErrorResets = true) :
    (s.innerSendReset id reason).2 = .ok () ∧
    (∃ st', (s.innerSendReset id reason).1.store.get? s.store.nextKey = some st' ∧ st'.id = id ∧
      st'.state = ⟨.closed (.error (.reset id reason .library))⟩ ∧ st'.pendingSend = [.reset reason] ∧
      st'.isPendingSend = true) ∧
    (∀ k' st'', k' < s.store.nextKey → (s.innerSendReset id reason).1.store.get? k' = some st'' →
      ∃ st0, s.store.get? k' = some st0 ∧ CoreEq st0 st'') ∧
    (∀ k' st0, s.store.get? k' = some st0 → st0.pendingSend ≠ [] →
      ∃ st'', (s.innerSendReset id reason).1.store.get? k' = some st'' ∧ CoreEq st0 st'') :=
  innerSendReset_unknown_owes s id reason hf hkb hq

/-- **(2) `Inner::send_reset(id, reason)` for a stream the id map knows** (trailers without END_STREAM):
    as in (1), through `Actions::send_reset` (followed by `transition_after`). -/
theorem escaped_error_on_known_stream_queues_rst_stream (s : Streams) (id k : Nat) (reason : Reason) (st : Stream)
    (hf : s.store.findKey? id = some k) (hkb : KeysBelow s.store) (hg : s.store.get? k = some st)
    (hq : s.counts.canIncNumLocalErrorResets = true) (hr : st.state.isReset = false)
    (hne : (st.state.isClosed && (st.pendingSend.isEmpty && st.bufferedSendData == 0)) = false) :
    (s.innerSendReset id reason).2 = .ok () ∧
    (∃ st', (s.innerSendReset id reason).1.store.get? k = some st' ∧ st'.id = st.id ∧
      st'.state = ⟨.closed (.error (.reset st.id reason .library))⟩ ∧
      st'.pendingSend = (if st.isPendingOpen then st.pendingSend.head?.toList else []) ++ [.reset reason] ∧
      (st.isSendReady = true → st'.isPendingSend = true ∧
        (H2V.Lemmas.ConnCountsP.QOK .pendingSend s → (s.innerSendReset id reason).1.panicked = none →
          k ∈ (s.innerSendReset id reason).1.prio.pendingSend))) ∧
    (∀ k' st'', k' ≠ k → k' < s.store.nextKey → (s.innerSendReset id reason).1.store.get? k' = some st'' →
      ∃ st0, s.store.get? k' = some st0 ∧ CoreEq st0 st'') ∧
    (∀ k' st0, k' ≠ k → s.store.get? k' = some st0 → st0.pendingSend ≠ [] →
      ∃ st'', (s.innerSendReset id reason).1.store.get? k' = some st'' ∧ CoreEq st0 st'') :=
  innerSendReset_known_owes s id k reason st hf hkb hg hq hr hne

/-- **the owed RST_STREAM comes out of `pop_frame`.**  When the stream at the head of the connection's
    `pending_send` queue has RST_STREAM(reason) at the head of its own queue, `pop_frame` returns
    RST_STREAM(stream id, reason) — with the code that was queued.  (That `pop_frame` emits a RST_STREAM
    ONLY for a stream that owes it, and at most one per entry, is C17.) -/
theorem owed_rst_stream_is_emitted (fuel : Nat) (s : Streams) (maxLen : Nat) (k : Nat) (rest : List Nat) (st : Stream)
    (r : Reason) (more : List SFrame) (hq : s.prio.pendingSend = k :: rest) (hg : s.store.get? k = some st)
    (hp : st.pendingSend = .reset r :: more) :
    (Streams.popFrame (fuel + 1) s maxLen).2 = some (.reset st.id r) :=
  popFrame_emits_rst fuel s maxLen k rest st r more hq hg hp

/-
  Non-vacuity.  `exRecv`: one stream (key 0, id 1) open in both directions with a 10-octet DATA frame
  queued, linked in the id map, nothing scheduled.
-/
/-- a concrete state: one open stream (key 0, id 1) with DATA queued -/
def exRecv : Streams :=
  { store := { slab := [{ key := 0, id := 1, state := { inner := .open .streaming .streaming }, refCount := 1,
                          bufferedSendData := 10, requestedSendCapacity := 10, pendingSend := [.data 10 false],
                          isCounted := true }],
               ids := [(1, 0)], nextKey := 1 },
    counts := { numSendStreams := 1 } }

/-- `exRecv` with a send window of 1 on the stream (so that an increment of 2^31-1 overflows it) -/
def exRecvW : Streams :=
  { exRecv with store := { exRecv.store with slab := exRecv.store.slab.map fun x => { x with sendFlow := ⟨⟨1⟩, ⟨0⟩⟩ } } }

/-- `exRecv` with a connection receive window of 65 535 and a stream receive window of 5 octets -/
def exRecvD : Streams :=
  { exRecv with
    store := { exRecv.store with slab := exRecv.store.slab.map fun x => { x with recvFlow := ⟨⟨5⟩, ⟨5⟩⟩ } },
    actions := { exRecv.actions with recv := { exRecv.actions.recv with flow := ⟨⟨65535⟩, ⟨65535⟩⟩ } } }

theorem exRecv_keysBelow : KeysBelow exRecv.store := by
  intro k st h
  have : st ∈ exRecv.store.slab := List.mem_of_find?_eq_some h
  have hk : st.key = k := by simpa using List.find?_some h
  simp [exRecv] at this
  subst this; subst hk; decide

theorem exRecv_qok : H2V.Lemmas.ConnCountsP.QOK .pendingSend exRecv := by
  refine ⟨fun k => ⟨fun h => by simp [exRecv, Streams.getQ, Streams.prio] at h, ?_⟩, by decide⟩
  rintro ⟨x, hx, hf⟩
  have : x ∈ exRecv.store.slab := List.mem_of_find?_eq_some hx
  simp [exRecv] at this
  subst this
  cases hf

/-- the hypotheses of (1) hold for `exRecv`, stream key 0; the result, evaluated: FLOW_CONTROL_ERROR (3)
    is queued as the stream's only frame (the DATA is gone), the stream is scheduled, no panic -/
example : KeysBelow exRecv.store ∧ H2V.Lemmas.ConnCountsP.QOK .pendingSend exRecv ∧
    (exRecv.store.get? 0).isSome = true ∧ exRecv.counts.canIncNumLocalErrorResets = true ∧
    (exRecv.stream 0).state.isReset = false ∧ (exRecv.stream 0).isSendReady = true ∧
    ((exRecv.stream 0).state.isClosed && ((exRecv.stream 0).pendingSend.isEmpty && (exRecv.stream 0).bufferedSendData == 0)) = false ∧
    ((exRecv.resetOnRecvStreamErr 0 (.error (.reset 1 3 .library))).1.stream 0).pendingSend = [.reset 3] ∧
    (exRecv.resetOnRecvStreamErr 0 (.error (.reset 1 3 .library))).1.prio.pendingSend = [0] ∧
    (exRecv.resetOnRecvStreamErr 0 (.error (.reset 1 3 .library))).1.panicked = none :=
  ⟨exRecv_keysBelow, exRecv_qok, by decide, by decide, by decide, by decide, by decide, by decide, by decide, by decide⟩

/-- the hypotheses of the WINDOW_UPDATE instance hold for `exRecvW` and WINDOW_UPDATE(1, 2^31-1); the result -/
example : exRecvW.store.findKey? 1 = some 0 ∧ (exRecvW.stream 0).isPendingOpen = false ∧
    ¬ ((exRecvW.stream 0).state.isSendClosed = true ∧ (exRecvW.stream 0).bufferedSendData = 0) ∧
    ¬ (inI32 ((exRecvW.stream 0).sendFlow.windowSize.val + u32AsI32 2147483647) = true ∧
        (exRecvW.stream 0).sendFlow.windowSize.val + u32AsI32 2147483647 ≤ (Generated.Consts.MAX_WINDOW_SIZE : Int)) ∧
    (exRecvW.recvWindowUpdate 1 2147483647).2 = .ok () ∧
    ((exRecvW.recvWindowUpdate 1 2147483647).1.stream 0).pendingSend = [.reset FLOW_CONTROL_ERROR] ∧
    (exRecvW.recvWindowUpdate 1 2147483647).1.prio.pendingSend = [0] := by
  refine ⟨by decide, by decide, by decide, by decide, by decide, by decide, by decide⟩

/-- the `recv_data` instance on `exRecvD` (`exRecv` with a stream receive window of 5 octets): 10 octets of DATA on
    stream 1 overrun the stream window — `Recv::recv_data` answers the stream error FLOW_CONTROL_ERROR,
    `Inner::recv_data` answers `Ok(())` and leaves RST_STREAM(FLOW_CONTROL_ERROR) queued and the stream scheduled -/
example : exRecvD.store.findKey? 1 = some 0 ∧
    (exRecvD.recvRecvData 0 [1,2,3,4,5,6,7,8,9,10] false none).2 = .error (.reset 1 FLOW_CONTROL_ERROR .library) ∧
    (exRecvD.recvData 1 [1,2,3,4,5,6,7,8,9,10] false none).2 = .ok () ∧
    ((exRecvD.recvData 1 [1,2,3,4,5,6,7,8,9,10] false none).1.stream 0).pendingSend = [.reset FLOW_CONTROL_ERROR] ∧
    (exRecvD.recvData 1 [1,2,3,4,5,6,7,8,9,10] false none).1.prio.pendingSend = [0] := by
  refine ⟨by decide, by decide, by decide, by decide, by decide⟩

/-- … and `pop_frame` then hands RST_STREAM(1, FLOW_CONTROL_ERROR) to the codec -/
example : (match (Streams.popFrame 4 (exRecv.resetOnRecvStreamErr 0 (.error (.reset 1 3 .library))).1 16384).2 with
    | some (.reset 1 3) => true
    | _ => false) = true := by decide

/-- (2): DATA for a stream the client has forgotten (id 3 < next_stream_id would be needed for
    "forgotten"; here id 1 on a store that does not know it) — `Inner::send_reset` creates the entry and
    queues RST_STREAM(STREAM_CLOSED = 5) -/
example : ({} : Streams).store.findKey? 1 = none ∧ ({} : Streams).counts.canIncNumLocalErrorResets = true ∧
    ((({} : Streams).innerSendReset 1 5).1.stream 0).pendingSend = [.reset 5] ∧
    (({} : Streams).innerSendReset 1 5).1.prio.pendingSend = [0] := by decide

example : KeysBelow ({} : Streams).store := fun k st h => by cases h

end H2V.Props.C09Cover

#print axioms H2V.Props.C09Cover.stream_error_queues_rst_stream
#print axioms H2V.Props.C09Cover.window_update_overflow_queues_rst_stream
#print axioms H2V.Props.C09Cover.recv_data_stream_error_queues_rst_stream
#print axioms H2V.Props.C09Cover.no_rst_stream_for_reset_or_finished_stream
#print axioms H2V.Props.C09Cover.escaping_stream_errors
#print axioms H2V.Props.C09Cover.escaped_stream_error_reaches_send_reset
#print axioms H2V.Props.C09Cover.escaped_error_on_unknown_stream_queues_rst_stream
#print axioms H2V.Props.C09Cover.escaped_error_on_known_stream_queues_rst_stream
#print axioms H2V.Props.C09Cover.owed_rst_stream_is_emitted
