import H2V.Lemmas.ConnFlowPCap
/-
  C16 — the send-capacity API tells the truth.
  Property theorems only (lemmas: `H2V/Lemmas/ConnFlowP*.lean`, notes: `ConnFlowPNOTES.md`).
  Vocabulary as in `H2V/Props/C02.lean`; `sumCap m slab` = Σ over the slab of what `capacity()` reports.
-/
namespace H2V.Props.C16
open H2V H2V.Model H2V.Model.Conn H2V.Lemmas.ConnFlowP

/-- **Reported capacity is usable.**  In every reachable state, what `SendStream::capacity()` reports
    for a stream (`Send::capacity`) is at most the capacity assigned to the stream, at most the
    stream's send window, at most the connection send window, and at most `max_send_buffer_size`:
    that many octets can be handed to `pop_frame` without any further grant from the peer. -/
theorem reported_capacity_is_usable {s : Streams} (h : Reach s) (k : Nat) :
    s.sendCapacity k ≤ (s.stream k).sendFlow.available.asSize ∧
    s.sendCapacity k ≤ (s.stream k).sendFlow.windowSz ∧
    (s.sendCapacity k : Int) ≤ s.prio.flow.windowSize.val ∧
    s.sendCapacity k ≤ s.prio.maxBufferSize :=
  h.safe.sendCapacity_le k

/-- **The total assigned across streams never exceeds the connection window** — neither the capacity
    assigned (`Σ available`) nor what the API reports (`Σ capacity()`), even together with what the
    connection still holds unassigned. -/
theorem total_assigned_le_connection_window {s : Streams} (h : Reach s) :
    sumAv s.store.slab + s.prio.flow.available.val ≤ s.prio.flow.windowSize.val ∧
    (sumCap s.prio.maxBufferSize s.store.slab : Int) + s.prio.flow.available.val ≤ s.prio.flow.windowSize.val ∧
    0 ≤ s.prio.flow.available.val :=
  ⟨by simpa using h.safe.ledger, h.safe.sumCap_le, h.safe.a0⟩

example : Reach ({ actions := { send := { prioritize := { flow := flowInit } } } } : Streams) :=
  .init ⟨rfl, rfl⟩

/-- **A capacity notification never reports zero**: `poll_capacity` never answers
    `Ready(Some(Ok(0)))` (any state, any stream, any waker) … -/
theorem poll_capacity_never_zero (s : Streams) (id : Nat) (tag : String) : (s.pollCapacity id tag).2 ≠ .cap 0 :=
  pollCapacity_ne_zero s id tag

/-- … what it reports is the positive capacity the stream has at that moment (so, in a reachable
    state, usable in the sense of `reported_capacity_is_usable`) … -/
theorem poll_capacity_reports_current_capacity {s : Streams} {id n : Nat} {tag : String}
    (h : (s.pollCapacity id tag).2 = .cap n) : n = (s.pollCapacity id tag).1.sendCapacity id ∧ 0 < n :=
  pollCapacity_cap h

/-- … and it answers `Pending` only after storing the caller's waker in the stream's `send_task`. -/
theorem poll_capacity_pending_registers_waker {s : Streams} {id : Nat} {tag : String} {st : Stream}
    (hget : s.store.get? id = some st) (h : (s.pollCapacity id tag).2 = .pending) :
    ((s.pollCapacity id tag).1.stream id).sendTask = some tag :=
  pollCapacity_pending hget h

/-- **A wait for capacity is woken when capacity arrives**: whenever `Stream::assign_capacity` makes
    what `capacity()` reports grow, the `send_capacity_inc` flag is raised (the next `poll_capacity`
    will look at the capacity instead of parking again) and the waker parked in `send_task` is woken. -/
theorem capacity_growth_wakes_waiter (x : Stream) (n m : Nat)
    (hgrow : x.capacity m < ({ x with sendFlow := (x.sendFlow.assignCapacity n).1 } : Stream).capacity m) :
    (x.assignCapacity n m).1.sendCapacityInc = true ∧ (x.assignCapacity n m).1.sendTask = none ∧
    ∀ t, x.sendTask = some t → t ∈ (x.assignCapacity n m).2 :=
  assignCapacity_notifies x n m hgrow

example : ({ id := 1, sendFlow := ⟨⟨100⟩, ⟨0⟩⟩ } : Stream).capacity 1000 <
    ({ ({ id := 1, sendFlow := ⟨⟨100⟩, ⟨0⟩⟩ } : Stream) with
        sendFlow := (FlowControl.assignCapacity ⟨⟨100⟩, ⟨0⟩⟩ 10).1 } : Stream).capacity 1000 := by decide

/-- **… or when the stream can no longer send**: `Stream::set_reset` (our reset, a library reset, the
    reset `recv_reset`/`handle_error` turn into) wakes the waker parked in `send_task`. -/
theorem reset_wakes_waiter (x : Stream) (r : Reason) (i : Initiator) :
    (x.setReset r i).1.sendTask = none ∧ ∀ t, x.sendTask = some t → t ∈ (x.setReset r i).2 :=
  setReset_wakes x r i

end H2V.Props.C16

#print axioms H2V.Props.C16.reported_capacity_is_usable
#print axioms H2V.Props.C16.total_assigned_le_connection_window
#print axioms H2V.Props.C16.poll_capacity_never_zero
#print axioms H2V.Props.C16.poll_capacity_reports_current_capacity
#print axioms H2V.Props.C16.poll_capacity_pending_registers_waker
#print axioms H2V.Props.C16.capacity_growth_wakes_waiter
#print axioms H2V.Props.C16.reset_wakes_waiter
