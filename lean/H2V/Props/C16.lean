import H2V.Lemmas.ConnFlowPMain
/-
  C16 — the send-capacity API tells the truth.
  Property theorems only (lemmas: `H2V/Lemmas/ConnFlowP*.lean`; what is partial and why:
  `H2V/Lemmas/ConnFlowPNOTES.md`).  Vocabulary as in `H2V/Props/C02.lean`, plus
    * `sumCap m slab` — Σ over the slab of what `capacity()` reports;
    * `total s`       — all the send capacity there is: `sumAv slab` + the connection's `available`;
    * `giveBack s id n` — `claim_capacity(n)` on the stream + `assign_capacity(n)` on the connection: the
                        first half of `reclaim_all_capacity`, `reclaim_reserved_capacity`, a lowered
                        `reserve_capacity`;
    * `SafeInvG n s`  — the invariant with `n` octets in transit between a stream and the connection;
    * `ReqOk s`       — every `requested_send_capacity` is a `u32` (holds in every reachable state and is
                        preserved by every model function, `Reach.reqOk`).
-/
namespace H2V.Props.C16
open H2V H2V.Model H2V.Model.Conn H2V.Lemmas.ConnFlowP

/-- **Reported capacity is usable.**  In every reachable state, what `SendStream::capacity()` reports
    for a stream is at most the capacity assigned to it, at most the stream's send window, at most
    the connection send window and at most `max_send_buffer_size`: that many octets pass `pop_frame`'s
    tests (`C02.data_frame_within_windows`) without any further grant from the peer. -/
theorem reported_capacity_is_usable {s : Streams} (h : Reach s) (k : Nat) :
    s.sendCapacity k ≤ (s.stream k).sendFlow.available.asSize ∧
    s.sendCapacity k ≤ (s.stream k).sendFlow.windowSz ∧
    (s.sendCapacity k : Int) ≤ s.prio.flow.windowSize.val ∧
    s.sendCapacity k ≤ s.prio.maxBufferSize :=
  h.safe.sendCapacity_le k

/-- **The total assigned across streams never exceeds the connection window** — neither the capacity
    assigned (`Σ available`) nor what the API reports (`Σ capacity()`), even together with what the
    connection still holds unassigned. -/
theorem total_assigned_le_connection_window {s : Streams} (h : Reach s) :
    sumAv s.store.slab + s.prio.flow.available.val ≤ s.prio.flow.windowSize.val ∧
    (sumCap s.prio.maxBufferSize s.store.slab : Int) + s.prio.flow.available.val ≤ s.prio.flow.windowSize.val ∧
    0 ≤ s.prio.flow.available.val :=
  ⟨by simpa using h.safe.ledger, h.safe.sumCap_le, h.safe.a0⟩

example (g : Conn.Cfg) : Reach (Conn.init g).streams := init_reach g

/-- **A capacity notification never reports zero**: `poll_capacity` never answers
    `Ready(Some(Ok(0)))` (any state, any stream, any waker) … -/
theorem poll_capacity_never_zero (s : Streams) (id : Nat) (tag : String) : (s.pollCapacity id tag).2 ≠ .cap 0 :=
  pollCapacity_ne_zero s id tag

/-- … what it reports is the positive capacity the stream has at that moment (in a reachable state:
    usable in the sense of `reported_capacity_is_usable`) … -/
theorem poll_capacity_reports_current_capacity {s : Streams} {id n : Nat} {tag : String}
    (h : (s.pollCapacity id tag).2 = .cap n) : n = (s.pollCapacity id tag).1.sendCapacity id ∧ 0 < n :=
  pollCapacity_cap h

/-- … and it answers `Pending` only after storing the caller's waker in the stream's `send_task`. -/
theorem poll_capacity_pending_registers_waker {s : Streams} {id : Nat} {tag : String} {st : Stream}
    (hget : s.store.get? id = some st) (h : (s.pollCapacity id tag).2 = .pending) :
    ((s.pollCapacity id tag).1.stream id).sendTask = some tag :=
  pollCapacity_pending hget h

/-- **A wait for capacity is woken when capacity arrives**: when `try_assign_capacity` makes what
    `capacity()` reports for a stream grow, the waker parked in the stream's `send_task` is in the
    wake log afterwards and `send_capacity_inc` is set (the woken `poll_capacity` reports the capacity
    instead of parking again).  `try_assign_capacity` is the only function that assigns capacity. -/
theorem capacity_growth_wakes_waiter {s : Streams} {id : Nat} {st : Stream} {tag : String}
    (hget : s.store.get? id = some st) (ht : st.sendTask = some tag)
    (hgrow : s.sendCapacity id < (s.tryAssignCapacity id).sendCapacity id) :
    tag ∈ (s.tryAssignCapacity id).wakes ∧ ((s.tryAssignCapacity id).stream id).sendCapacityInc = true :=
  tryAssign_wakes hget ht hgrow

/-- **… or when the stream can no longer send**: `Stream::set_reset` (our reset, a library reset, and
    what `recv_reset` / `handle_error` / `recv_eof` do through `notify_send`) wakes the waker parked in
    `send_task`. -/
theorem reset_wakes_waiter (x : Stream) (r : Reason) (i : Initiator) :
    ((x.setReset r i).1.sendTask = none ∧ ∀ t, x.sendTask = some t → t ∈ (x.setReset r i).2) ∧
    (x.notifySend.1.sendTask = none ∧ ∀ t, x.sendTask = some t → t ∈ x.notifySend.2) :=
  ⟨setReset_wakes x r i, notifySend_wakes x⟩

/-- **Unused capacity returns to the connection, exactly.**  `reclaim_all_capacity` (stream reset,
    error, queue cleared) first gives back everything the stream holds: the stream is left with 0,
    the connection gets exactly that much, the total is unchanged, the invariant holds; then it runs
    `assign_connection_capacity`'s loop on that state. -/
theorem unused_capacity_returns_exactly {s : Streams} (h : SafeInv s) {id : Nat} {st : Stream}
    (hget : s.store.get? id = some st) (hpos : st.sendFlow.available.asSize > 0) :
    s.reclaimAllCapacity id =
      Streams.assignConnectionCapacityLoop
        ((giveBack s id st.sendFlow.available.asSize).prio.pendingCapacity.length + 2)
        (giveBack s id st.sendFlow.available.asSize) ∧
    total (giveBack s id st.sendFlow.available.asSize) = total s ∧
    ((giveBack s id st.sendFlow.available.asSize).stream id).sendFlow.available.val = 0 ∧
    (giveBack s id st.sendFlow.available.asSize).prio.flow.available.val =
      s.prio.flow.available.val + st.sendFlow.available.val ∧
    SafeInv (giveBack s id st.sendFlow.available.asSize) :=
  reclaim_all_is_exact h hget hpos

/-- the same for any part `n ≤ available` (`reclaim_reserved_capacity`: what exceeds the buffered
    data when the handles are dropped; a lowered `reserve_capacity`: what exceeds the new request) -/
theorem partial_give_back_is_exact {s : Streams} (h : SafeInv s) {id n : Nat} {st : Stream}
    (hget : s.store.get? id = some st) (hn : n ≤ st.sendFlow.available.asSize) :
    total (giveBack s id n) = total s ∧
    ((giveBack s id n).stream id).sendFlow.available.val = st.sendFlow.available.val - n ∧
    (giveBack s id n).prio.flow.available.val = s.prio.flow.available.val + n ∧
    (giveBack s id n).prio.flow.windowSize = s.prio.flow.windowSize ∧
    (giveBack s id n).store.slab.map (·.key) = s.store.slab.map (·.key) ∧
    SafeInv (giveBack s id n) :=
  giveBack_exact h hget hn

/-- **… when the stream is reset by the user**: after `StreamRef::send_reset` the stream (every slab
    entry with its store key) holds no send capacity, is not send-streaming and has nothing buffered —
    so `try_assign_capacity` cannot hand it anything again (`KeyP id ColdSt`).  What it held went
    through `giveBack` (`unused_capacity_returns_exactly`).  Hypotheses: the stream was not reset
    already and was not closed-and-flushed (in those cases `send_reset` does nothing). -/
theorem reset_stream_holds_no_capacity {s : Streams} (h : SafeInv s) (id : Nat) (r : Reason)
    (hnr : (s.stream id).state.isReset = false)
    (hne : ((s.stream id).state.isClosed &&
      ((s.stream id).pendingSend.isEmpty && (s.stream id).bufferedSendData == 0)) = false) :
    KeyP id ColdSt (s.refSendReset id r) :=
  refSendReset_cold h id r hnr hne

/-- **… when the peer resets it**: after an accepted RST_STREAM (`Inner::recv_reset`) the stream holds
    no send capacity and cannot get any. -/
theorem peer_reset_stream_holds_no_capacity {s : Streams} (h : SafeInv s) {id k : Nat} (reason : Reason)
    (hid : id ≠ 0) (hmax : ¬ id > s.recv.maxStreamId) (hfind : s.store.findKey? id = some k)
    (hpo : (s.stream k).isPendingOpen = false) (hok : (s.recvRecvReset k reason).2 = .ok ()) :
    KeyP k ColdSt (s.recvReset id reason).1 :=
  recvReset_cold h reason hid hmax hfind hpo hok

/-- **… when its handles are dropped or the request is lowered**: `reclaim_reserved_capacity` gives
    back exactly `available − buffered`, a lowered `reserve_capacity` exactly `available − (request +
    buffered)`, both through `giveBack` (exact by `partial_give_back_is_exact`) followed by
    `assign_connection_capacity`'s loop. -/
theorem dropped_or_lowered_capacity_returns_exactly {s : Streams} (h : SafeInv s) {id c : Nat} {st : Stream}
    (hget : s.store.get? id = some st) :
    (st.sendFlow.available.asSize > st.bufferedSendData →
      s.reclaimReservedCapacity id =
        Streams.assignConnectionCapacityLoop
          ((giveBack s id (st.sendFlow.available.asSize - st.bufferedSendData)).prio.pendingCapacity.length + 2)
          (giveBack s id (st.sendFlow.available.asSize - st.bufferedSendData))) ∧
    (c + st.bufferedSendData < st.requestedSendCapacity → st.sendFlow.available.asSize > c + st.bufferedSendData →
      s.reserveCapacity id c =
        Streams.assignConnectionCapacityLoop
          ((giveBack (s.modStream id fun x => { x with requestedSendCapacity := usizeAsU32 (c + st.bufferedSendData) }) id
            (st.sendFlow.available.asSize - (c + st.bufferedSendData))).prio.pendingCapacity.length + 2)
          (giveBack (s.modStream id fun x => { x with requestedSendCapacity := usizeAsU32 (c + st.bufferedSendData) }) id
            (st.sendFlow.available.asSize - (c + st.bufferedSendData)))) :=
  ⟨reclaimReserved_exact h hget, reserveLower_exact h hget⟩

/-- **… and reaches other waiting streams.**  `assign_connection_capacity` stops only when the
    connection has nothing left or no stream waits in `pending_capacity` (the model's fuel is enough
    for that), whatever `inc` octets it was called with. -/
theorem returned_capacity_reaches_waiting_streams {s : Streams} {inc : Nat} (h : SafeInvG inc s) (hr : ReqOk s) :
    (s.assignConnectionCapacity inc).prio.flow.available.val ≤ 0 ∨
    (s.assignConnectionCapacity inc).prio.pendingCapacity = [] :=
  returned_capacity_is_passed_on h hr

/-- a concrete state: one open stream (key 0, id 1) with a 10-octet DATA frame queued, 10 octets of
    capacity assigned, stream window 100, connection window 65 535 of which 65 525 unassigned -/
def exState : Streams :=
  { store := { slab := [{ key := 0, id := 1, state := { inner := .open .streaming .streaming },
                          isPendingSend := true, sendFlow := ⟨⟨100⟩, ⟨10⟩⟩, requestedSendCapacity := 10,
                          bufferedSendData := 10, pendingSend := [.data 10 true] }],
               ids := [(1, 0)], nextKey := 1 },
    actions := { send := { prioritize := { pendingSend := [0], flow := ⟨⟨65535⟩, ⟨65525⟩⟩ } } } }

example : SafeInvG 0 exState ∧ ReqOk exState := by
  refine ⟨⟨Int.le_refl _, ⟨by decide, by intro x hx; simp [exState] at hx; subst hx; decide⟩, ?_, by decide, by decide, by decide⟩, ?_⟩
  · intro x hx; simp [exState] at hx; subst hx
    exact ⟨by decide, by intro _; decide, by decide, by decide⟩
  · intro x hx; simp [exState] at hx; subst hx; decide

/-- the hypotheses of the two reset theorems and of the give-back theorems are met by `exState` -/
example : (exState.stream 0).state.isReset = false ∧
    ((exState.stream 0).state.isClosed &&
      ((exState.stream 0).pendingSend.isEmpty && (exState.stream 0).bufferedSendData == 0)) = false ∧
    (1 : Nat) ≠ 0 ∧ ¬ (1 > exState.recv.maxStreamId) ∧ exState.store.findKey? 1 = some 0 ∧
    (exState.stream 0).isPendingOpen = false ∧ (exState.recvRecvReset 0 8).2 = .ok () ∧
    (∃ st, exState.store.get? 0 = some st ∧ st.sendFlow.available.asSize > 0) := by
  refine ⟨rfl, rfl, by decide, by decide, rfl, rfl, rfl, ⟨_, rfl, by decide⟩⟩

/-- `ReqOk` is no restriction on reachable states -/
theorem requested_capacity_is_u32 {s : Streams} (h : Reach s) : ReqOk s := h.reqOk

/-- **Assigning is exact too**: `try_assign_capacity` moves capacity from the connection to the
    stream and loses none (total unchanged, no stream appears or disappears, no window changes). -/
theorem assignment_is_exact {s : Streams} (h : SafeInv s) (id : Nat) :
    total (s.tryAssignCapacity id) = total s ∧
    (s.tryAssignCapacity id).prio.flow.windowSize = s.prio.flow.windowSize ∧
    (s.tryAssignCapacity id).store.slab.map (·.key) = s.store.slab.map (·.key) :=
  tryAssign_exact h id

/-
  FULL STATEMENT (not proven): in every reachable state the ledger is exact,
      `sumAv s.store.slab + s.prio.flow.available.val = s.prio.flow.windowSize.val`,
  i.e. no capacity is ever lost.  With `assignment_is_exact`, `partial_give_back_is_exact`,
  `C02.data_frame_within_windows` (`Charged`), the WINDOW_UPDATE / SETTINGS lemmas, what is missing is
  exactly one fact: a stream that `transition_after` releases holds no capacity.  The theorem below
  says that this is the *only* place where capacity can disappear.
-/
/-- **Capacity can get lost in one place only** (partial form of “nothing is ever lost”):
    `transition_after` keeps the total, except when it releases — removes from the slab — a closed,
    unreferenced stream that still holds capacity; then exactly that stream's capacity is gone. -/
theorem capacity_lost_only_by_release_partial {t : Streams} (hk : KeysOk t.store) (id : Nat) (b : Bool) :
    total (t.transitionAfter id b) = total t ∨
    ∃ st : Stream, st.key = id ∧ st.isClosed = true ∧ st.refCount = 0 ∧
      (∃ x ∈ t.store.slab, x.key = id ∧ x.sendFlow = st.sendFlow) ∧
      total (t.transitionAfter id b) = total t - st.sendFlow.available.val :=
  transitionAfter_total hk id b

example : KeysOk exState.store := ⟨by decide, by intro x hx; simp [exState] at hx; subst hx; decide⟩

end H2V.Props.C16

#print axioms H2V.Props.C16.reported_capacity_is_usable
#print axioms H2V.Props.C16.total_assigned_le_connection_window
#print axioms H2V.Props.C16.poll_capacity_never_zero
#print axioms H2V.Props.C16.poll_capacity_reports_current_capacity
#print axioms H2V.Props.C16.poll_capacity_pending_registers_waker
#print axioms H2V.Props.C16.capacity_growth_wakes_waiter
#print axioms H2V.Props.C16.reset_wakes_waiter
#print axioms H2V.Props.C16.unused_capacity_returns_exactly
#print axioms H2V.Props.C16.partial_give_back_is_exact
#print axioms H2V.Props.C16.reset_stream_holds_no_capacity
#print axioms H2V.Props.C16.peer_reset_stream_holds_no_capacity
#print axioms H2V.Props.C16.dropped_or_lowered_capacity_returns_exactly
#print axioms H2V.Props.C16.returned_capacity_reaches_waiting_streams
#print axioms H2V.Props.C16.requested_capacity_is_u32
#print axioms H2V.Props.C16.assignment_is_exact
#print axioms H2V.Props.C16.capacity_lost_only_by_release_partial
