import H2V.Model.ConnDriver
import H2V.Model.ConnInv
/- connection-level model driver: one answer line per op line (see H2V/Model/Conn*.lean, tools/conndiff.py).
   With H2V_CONN_INV set, the candidate invariants of H2V/Model/ConnInv.lean are evaluated after every op and
   the violated ones are written to stderr as `INV <op number> <op> :: <violation>`. -/
open H2V.Model.Conn

partial def loop (hin hout : IO.FS.Stream) (inv : Bool) (n : Nat) (w : World) : IO Unit := do
  let line ← hin.getLine
  if line.isEmpty then return ()
  let t := line.trimAscii.toString
  if t.isEmpty || t.startsWith "#" then
    loop hin hout inv n w
  else
    let ws := (t.splitOn " ").filter (· ≠ "")
    let (w', out) := step w ws
    hout.putStrLn out
    if inv && !w'.gaveUp && !w'.connGone then
      match w'.conn with
      | some c =>
        for v in violations c do
          IO.eprintln s!"INV {n} {(t.take 40).toString} :: {v}"
      | none => pure ()
    loop hin hout inv (n + 1) w'

def main : IO Unit := do
  let hin ← IO.getStdin
  let hout ← IO.getStdout
  let inv := (← IO.getEnv "H2V_CONN_INV").isSome
  loop hin hout inv 0 {}
