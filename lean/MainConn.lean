/- connection-level model driver (stub; see H2V/Model/Conn*.lean) -/
def main : IO Unit := do
  let hin ← IO.getStdin
  let rec loop : IO Unit := do
    let line ← hin.getLine
    if line.isEmpty then return ()
    IO.println "unmodelled"
    loop
  loop
