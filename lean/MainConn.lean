/- connection-level model driver (stub; see H2V/Model/Conn*.lean) -/
partial def loop (hin : IO.FS.Stream) : IO Unit := do
  let line ← hin.getLine
  if line.isEmpty then return ()
  IO.println "unmodelled"
  loop hin

def main : IO Unit := do
  loop (← IO.getStdin)
