import H2V.Driver.Core
open H2V H2V.Driver

def stepLine (st : DState) (line : String) : DState × String :=
  let ws := (line.trimAscii.toString.splitOn " ").filter (· ≠ "")
  match handleCore st ws with
  | some r => r
  | none => (st, "bad-op")

partial def loop (hin : IO.FS.Stream) (hout : IO.FS.Stream) (st : DState) : IO Unit := do
  let line ← hin.getLine
  if line.isEmpty then return ()
  let t := line.trimAscii.toString
  if t.isEmpty || t.startsWith "#" then
    loop hin hout st
  else
    let (st', out) := stepLine st line
    hout.putStrLn out
    loop hin hout st'

def main : IO Unit := do
  let hin ← IO.getStdin
  let hout ← IO.getStdout
  loop hin hout {}
