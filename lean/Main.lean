import H2V.Driver.Core
import H2V.Driver.Codec
import H2V.Driver.Wire
import H2V.Driver.Comp
open H2V H2V.Driver

structure AllState where
  core : DState := {}
  codec : CState := {}
  wire : H2V.Spec.Wire.WSt := {}
  comp : CompState := {}

def stepLine (st : AllState) (line : String) : AllState × String :=
  let ws := (line.trimAscii.toString.splitOn " ").filter (· ≠ "")
  match handleCore st.core ws with
  | some (c, out) => ({ st with core := c }, out)
  | none =>
    match handleCodec st.codec ws with
    | some (c, out) => ({ st with codec := c }, out)
    | none =>
      match handleWire st.wire ws with
      | some (w, out) => ({ st with wire := w }, out)
      | none =>
        match handleComp st.comp ws with
        | some (c, out) => ({ st with comp := c }, out)
        | none => (st, "bad-op")

partial def loop (hin : IO.FS.Stream) (hout : IO.FS.Stream) (st : AllState) : IO Unit := do
  let line ← hin.getLine
  if line.isEmpty then return ()
  let t := line.trimAscii.toString
  if t.isEmpty || t.startsWith "#" then
    loop hin hout st
  else
    let (st', out) := stepLine st line
    hout.putStrLn out
    loop hin hout st'

def main : IO Unit := do
  let hin ← IO.getStdin
  let hout ← IO.getStdout
  loop hin hout {}
