import H2V.Driver.Core
import H2V.Driver.Codec
import H2V.Driver.Wire
import H2V.Driver.Comp
import H2V.Spec.WriteMon
import H2V.Spec.StateInv
open H2V H2V.Driver

structure AllState where
  core : DState := {}
  codec : CState := {}
  wire : H2V.Spec.Wire.WSt := {}
  comp : CompState := {}
  wmon : H2V.Spec.WriteMon.St := {}

def showV (vs : List String) : String := if vs.isEmpty then "ok" else "FAIL " ++ " ;; ".intercalate vs

/-- `mon_wr …`: the write-side monitor of C12 (H2V/Spec/WriteMon.lean) on the real codec's output -/
def handleWriteMon (s : H2V.Spec.WriteMon.St) (ws : List String) : Option (H2V.Spec.WriteMon.St × String) :=
  match ws with
  | ["mon_wr", "new"] => some ({}, "ok")
  | ["mon_wr", "maxf", n] => n.toNat?.map fun n => ({ s with maxf := max s.maxf n }, "ok")
  | ["mon_wr", "item"] => some ({ s with items := s.items + 1 }, "ok")
  | ["mon_wr", "out", h] =>
    match Hex.toBytes? h with
    | some bs => let (s', vs) := H2V.Spec.WriteMon.out s bs; some (s', showV vs)
    | none => none
  | ["mon_wr", "shut"] => some (s, showV (H2V.Spec.WriteMon.shut s))
  | _ => none

/-- `mon_st <client|server> <reset_max|-> <digest>`: bookkeeping invariants on the real state (H2V/Spec/StateInv.lean) -/
def handleStateInv (ws : List String) : Option String :=
  match ws with
  | ["mon_st", role, rm, digest] => some (showV (H2V.Spec.StateInv.check (role == "server") rm.toNat? digest))
  | ["mon_capwait", c0, c, wk] =>
    match c0.toNat?, c.toNat? with
    | some a, some b => some (showV (H2V.Spec.StateInv.capWait a b (wk == "1")))
    | _, _ => none
  | ["mon_stalled", ca, win, av, buf, po] =>
    match ca.toInt?, win.toInt?, av.toInt?, buf.toInt? with
    | some a, some b, some c, some d => some (showV (H2V.Spec.StateInv.stalled a b c d (po == "1")))
    | _, _, _, _ => none
  | ["mon_held", sid, held, digest] =>
    match sid.toNat?, held.toNat? with
    | some s, some h => some (showV (H2V.Spec.StateInv.heldCheck digest s h))
    | _, _ => none
  | _ => none

def stepLine (st : AllState) (line : String) : AllState × String :=
  let ws := (line.trimAscii.toString.splitOn " ").filter (· ≠ "")
  match handleStateInv ws with
  | some out => (st, out)
  | none =>
  match handleWriteMon st.wmon ws with
  | some (m, out) => ({ st with wmon := m }, out)
  | none =>
  match handleCore st.core ws with
  | some (c, out) => ({ st with core := c }, out)
  | none =>
    match handleCodec st.codec ws with
    | some (c, out) => ({ st with codec := c }, out)
    | none =>
      match handleWire st.wire ws with
      | some (w, out) => ({ st with wire := w }, out)
      | none =>
        match handleComp st.comp ws with
        | some (c, out) => ({ st with comp := c }, out)
        | none => (st, "bad-op")

partial def loop (hin : IO.FS.Stream) (hout : IO.FS.Stream) (st : AllState) : IO Unit := do
  let line ← hin.getLine
  if line.isEmpty then return ()
  let t := line.trimAscii.toString
  if t.isEmpty || t.startsWith "#" then
    loop hin hout st
  else
    let (st', out) := stepLine st line
    hout.putStrLn out
    loop hin hout st'

def main : IO Unit := do
  let hin ← IO.getStdin
  let hout ← IO.getStdout
  loop hin hout {}
