#!/usr/bin/env python3
"""Regenerates MANIFEST.json's checks / not_applicable / engines from tools/props.py (what is registered is what is claimed)."""
import json, os, sys
ROOT = os.path.dirname(os.path.dirname(os.path.abspath(__file__)))
sys.path.insert(0, os.path.join(ROOT, "tools"))
import props as P  # noqa

M = json.load(open(os.path.join(ROOT, "MANIFEST.json")))
old = {c["property_id"]: c for c in M["checks"]}
ALL = [json.loads(l)["id"] for l in open(os.path.join(ROOT, "properties.jsonl"))]

CONN_TEXT = {
    "C06": "progress / no lost wake-up: Lean theorems on the waker bookkeeping of the connection model (who is parked, who wakes whom), incl. for every reachable connection state: Connection::poll answers Pending only parked with everything writable drained (safety form of liveness; liveness under a fair scheduler itself is not stated); correspondence of the real connection with the model INCLUDING every wake-up fired per operation; two real endpoints under a strict executor (a task runs only when woken) with a progress oracle",
    "C07": "everything resolves at the end: Lean theorems on the model's end-of-connection paths (recv_eof / handle_error / GOAWAY / drop); correspondence incl. wake-ups; two real endpoints ended in every way under a strict executor with an everything-resolves oracle",
    "C08": "no panic / wedge / busy loop: Lean theorems that the model's recorded assert/unwrap sites do not fire in any state reachable by the covered operations (35-40 operations with arbitrary arguments; named hypotheses: library-reset quota, decoder bounds, three state invariants of poll_complete) and that its fuelled loops have enough fuel (bounded work); correspondence of the real connection with the model on generated AND mutated (hostile) histories, panics of the real code caught per operation; self-wake-without-progress rule",
    "C09": "violations detected and contained, legal traffic tolerated: Lean theorems on the model's frame dispatch (which frames are connection errors, stream errors, ignored); correspondence; the three-way verdict monitor (Spec/Verdict.lean) on a catalogue of injected frames, one entry per RFC rule, after random legal prefixes",
    "C13": "malformed messages: Lean theorems on the model's header-block loader and message conversion against the RFC 9113 section 8 reference predicate (Spec/Http.lean); correspondence; delivered/generated-message monitors on real traces with malformed heads and trailers injected",
    "C15": "GOAWAY / shutdown: Lean theorems on the GoAway sub-machine and the stream layer's GOAWAY handling in the model; correspondence; GOAWAY monitors (monotone last id, nothing new after, streams above fail) on the real wire trace",
    "C17": "resets: Lean theorems on the model's reset paths (exactly one RST_STREAM, queue discarded, capacity reclaimed; peer errors surface with code/initiator); correspondence; reset monitors on the real wire trace",
    "C19": "finished streams forgotten, idle client closes: Lean theorems on store/queue consistency and release in the model; correspondence incl. the whole store digest; bookkeeping invariants on the real state after every operation (Spec/StateInv.lean C19), idle-close rule at quiescence",
    "C14": "SETTINGS/PING acknowledgements: Lean theorems over EVERY history of the connection model (instrumented poll with an erasure theorem): acknowledged SETTINGS are a prefix of the received ones, at most one owed, PING payloads answered in order with their own payload, values applied exactly at the ACK, local settings enforced at the peer's ACK, unsolicited SETTINGS ACK = PROTOCOL_ERROR; correspondence of the real connection with the model; ack monitors (Spec/Wire.lean C14) on the real wire trace",
    "C05": "concurrent-stream limits: Lean theorems on the counters' guards (and counting invariants of the connection model where present in H2V/Props/C05.lean); correspondence of the real connection with the model incl. all counters; monitors: concurrency rule on the real wire trace (Spec/Wire.lean C05) and counter-vs-store invariants on the real state after every operation (Spec/StateInv.lean)",
    "C16": "send-capacity API: Lean theorems on capacity assignment arithmetic (and send-ledger invariants of the connection model where present); correspondence incl. capacity answers and wake-ups; assigned-capacity ledger checked on the real state after every operation (Spec/StateInv.lean C16)",
    "C18": "bounded state: Lean theorems on the quota guards (reset memory, library resets, tiny-DATA budget) (and bounds of the connection model where present); correspondence; quota invariants on the real state after every operation (Spec/StateInv.lean C18)",
    "C02": "send-side flow control: Lean theorems on FlowControl arithmetic/ledger (and, where present in H2V/Props/C02.lean, send-ledger invariants of the connection model); the real connection vs the Lean connection model op by op; RFC 9113 credit monitor (Spec/Wire.lean rule C02) on the real wire trace",
    "C03": "receive-side flow control: Lean theorems on window credit arithmetic (and receive-ledger invariants of the connection model where present); correspondence of the real connection with the model incl. every window field; advertised-window monitor (rule C03) on the real trace",
    "C04": "stream life cycle on the wire: Lean theorem that h2's stream state machine refines RFC 9113 Figure 2 (Spec/Lifecycle.lean) + connection-level theorems where present; correspondence; legalTx monitor (rule C04) on every frame the real endpoint writes",
}
DEFAULT_NOTE = ("Trusted: Lean kernel; tools/extract.py; the harness, generators and the state digest (Debug rendering via the hook feature); "
                "H2V/Spec/* (my reading of RFC 9113/7541); the hand-written connection model is tied to the code only by the differential run "
                "(every answer field compared on the generated histories), not by translation.")


def entry(pid):
    if pid in old and pid not in CONN_TEXT and not P.PROPS[pid].get("conn_compare"):
        return old[pid]
    text = CONN_TEXT.get(pid) or P.PROPS[pid].get("level_text") or old.get(pid, {}).get("level_claimed", {}).get("text", "")
    return {
        "property_id": pid,
        "quick_cmd": f"bin/check {pid} --tier quick",
        "thorough_cmd": f"bin/check {pid} --tier thorough",
        "evidence_file": f"/verif/evidence/{pid}.json",
        "replay_cmd_template": "bin/check replay {path}",
        "engine": "h2v-lean",
        "level_claimed": {"category": "proof", "text": text, "design_ref": f"DESIGN.md section 4 {pid} and section 0a"},
        "level_note": P.PROPS[pid].get("level_note", DEFAULT_NOTE),
        "technique": "machine-checked proof in Lean 4 (theorems about an executable model of the code) + model/implementation correspondence check + RFC reference monitors on real traces",
    }


claimed = [p for p in ALL if p in P.PROPS]
M["checks"] = [entry(p) for p in claimed]
na_old = {n["property_id"]: n for n in M.get("not_applicable", [])}
M["not_applicable"] = [na_old.get(p, {"property_id": p, "reason": "check not built yet in this round (work in progress; see DESIGN.md section 0a)"}) for p in ALL if p not in claimed]
for e in M["engines"]:
    e["serves_properties"] = claimed
json.dump(M, open(os.path.join(ROOT, "MANIFEST.json"), "w"), indent=1)
print("claimed:", claimed)
print("not_applicable:", [n["property_id"] for n in M["not_applicable"]])
