#!/bin/bash
# usage: seedverify.sh <prop> <worktree> <k>
# Confirms a seeded change myself: compiles, suite unchanged (649+1 baseline failure), demo fails with / passes without;
# then runs the property's quick check against the changed tree (H2V_REPO mode) and stores everything under /verif/seeded/.
set -u
PROP=$1; WT=$2; K=$3
OUT=$WT/out_$K
LOG=/tmp/seedverify_${PROP}_$K.log
exec >$LOG 2>&1
cd $WT || exit 2
git checkout -- src tests 2>/dev/null
# the change is evaluated on top of /repo's CURRENT head (fix commits made since the worktree was created included)
git checkout -q --detach $(git -C /repo rev-parse HEAD) || { echo "CHECKOUT-FAILED"; exit 2; }
git apply $OUT/patch.diff || { echo "APPLY-FAILED"; exit 2; }
echo "== build"; cargo build --offline 2>&1 | tail -2; cargo build --offline --features unstable 2>&1 | tail -2
echo "== suite with change"
cargo nextest run --workspace --no-fail-fast --tool-config-file pb:/w/lib/nextest.toml --profile pb --test-threads 8 --offline 2>&1 | grep -E "Summary|^\s+FAIL" | sort -u
DEMO=$(ls -d $WT/demo_$K $OUT/demo_$K 2>/dev/null | head -1)
# a demonstration is either a program (cargo run) or a test crate (cargo test)
DEMOCMD="cargo run --offline --release"
if [ -n "$DEMO" ] && [ ! -f $DEMO/src/main.rs ] && [ -d $DEMO/tests ]; then DEMOCMD="cargo test --offline --release"; fi
if [ -n "$DEMO" ]; then
  echo "== demo with change"; (cd $DEMO && timeout 1800 $DEMOCMD 2>&1 | tail -5; echo "DEMO-WITH rc=${PIPESTATUS[0]}")
fi
echo "== check with change"
(cd /verif && H2V_REPO=$WT timeout 3000 bin/check $PROP --tier quick 2>&1 | tail -15; echo "CHECK-WITH rc=${PIPESTATUS[0]}")
git checkout -- src tests 2>/dev/null
if [ -n "$DEMO" ]; then
  echo "== demo without change"; (cd $DEMO && timeout 1800 $DEMOCMD 2>&1 | tail -3; echo "DEMO-WITHOUT rc=${PIPESTATUS[0]}")
fi
echo "== done"
