#!/usr/bin/env python3
"""Compare the connection-level Lean model (lean_exe h2vconn) with the real code on generated histories.

  tools/conndiff.py <profile> <seed> <cases> [--show N] [--keep DIR]

For every op line the real answer is  r=<result> tx=<frames> wk=<wakes> st=<digest>  (see harness/src/conn.rs).
The model prints the same shape for what it models; a field, a digest segment or a comma-separated digest
component that the model does not predict is written `?` (or left out: missing digest segments are not compared).
A model line `unmodelled` stops the comparison of that history (until the next cn_new).
Exit status 0 iff no divergence. Prints a per-field agreement table so that coverage is visible.
"""
import subprocess, sys, os, collections

ROOT = os.path.dirname(os.path.dirname(os.path.abspath(__file__)))
H2V = os.path.join(ROOT, "harness", "target", "release", "h2v")
MODEL = os.path.join(ROOT, "lean", ".lake", "build", "bin", "h2vconn")


def fields(line):
    d = {}
    for w in line.split(" "):
        if "=" in w:
            k, v = w.split("=", 1)
            d.setdefault(k, v)
    return d


def segs(st):
    out = {}
    if st in ("-", "?", "gone", None):
        return out
    for s in st.split("|"):
        if ":" in s:
            k, v = s.split(":", 1)
            out[k] = v.split(",")
    return out


def compare_line(impl, model, stats):
    """returns list of (what, impl value, model value)"""
    divs = []
    fi, fm = fields(impl), fields(model)
    for k in ("r", "tx", "wk"):
        mv = fm.get(k, "?")
        if mv == "?":
            stats[(k, "skipped")] += 1
            continue
        stats[(k, "compared")] += 1
        if mv != fi.get(k):
            divs.append((k, fi.get(k), mv))
    si, sm = segs(fi.get("st")), segs(fm.get("st"))
    for name, mvals in sm.items():
        ivals = si.get(name)
        if ivals is None:
            divs.append(("st." + name, "<absent>", ",".join(mvals)))
            continue
        for j, mv in enumerate(mvals):
            key = "st." + (name if not name.startswith("S") or name == "SB" else "S") + f"[{j}]"
            if mv == "?":
                stats[(key, "skipped")] += 1
                continue
            stats[(key, "compared")] += 1
            iv = ivals[j] if j < len(ivals) else "<missing>"
            if iv != mv:
                divs.append((f"st.{name}[{j}]", iv, mv))
    # streams the model forgot about entirely are a divergence only if the model lists any stream at all
    if any(k.startswith("S") and k != "SB" for k in sm):
        for name in si:
            if name.startswith("S") and name != "SB" and name not in sm:
                divs.append(("st." + name, ",".join(si[name]), "<absent in model>"))
    return divs


def main():
    a = sys.argv[1:]
    profile, seed, cases = a[0], a[1], a[2]
    show = int(a[a.index("--show") + 1]) if "--show" in a else 3
    keep = a[a.index("--keep") + 1] if "--keep" in a else None
    ops = subprocess.run([H2V, "gen", profile, seed, cases], capture_output=True, text=True, check=True).stdout
    impl = subprocess.run([H2V, "run"], input=ops, capture_output=True, text=True, check=True).stdout.splitlines()
    mod = subprocess.run([MODEL], input=ops, capture_output=True, text=True)
    model = mod.stdout.splitlines()
    opl = [l for l in ops.splitlines() if l.strip() and not l.startswith("#")]
    if keep:
        os.makedirs(keep, exist_ok=True)
        open(os.path.join(keep, "ops.txt"), "w").write(ops)
        open(os.path.join(keep, "impl.txt"), "w").write("\n".join(impl) + "\n")
        open(os.path.join(keep, "model.txt"), "w").write("\n".join(model) + "\n")
    if len(model) != len(opl):
        print(f"STREAM LENGTH: {len(opl)} ops, impl {len(impl)} lines, model {len(model)} lines; model stderr: {mod.stderr[-400:]}")
    stats = collections.Counter()
    ndiv = 0
    skipping = False
    hist_start = 0
    nhist = ncompared_hist = nlines = nunmodelled = 0
    first_div_of_hist = False
    for i, o in enumerate(opl):
        if i >= len(impl) or i >= len(model):
            break
        if o.startswith("cn_new"):
            skipping = False
            hist_start = i
            nhist += 1
            first_div_of_hist = False
        if skipping:
            continue
        if model[i].strip() == "unmodelled":
            nunmodelled += 1
            skipping = True
            continue
        nlines += 1
        divs = compare_line(impl[i], model[i], stats)
        if divs:
            ndiv += 1
            skipping = True      # the model state is stale after a divergence
            if show > 0:
                show -= 1
                print(f"--- DIVERGENCE at op #{i} (history starts at #{hist_start}): {o[:200]}")
                for w, iv, mv in divs[:8]:
                    print(f"      {w}: impl={iv}  model={mv}")
                print(f"      impl : {impl[i][:600]}")
                print(f"      model: {model[i][:600]}")
                lo = max(hist_start, i - 6)
                for j in range(lo, i):
                    print(f"      prev #{j}: {opl[j][:120]}   -> {fields(impl[j]).get('r')}  tx={fields(impl[j]).get('tx', '')[:80]}")
    print(f"histories={nhist} lines_compared={nlines} unmodelled_stops={nunmodelled} divergences={ndiv}")
    keys = sorted({k for k, _ in stats})
    print("field coverage (compared / skipped):")
    for k in keys:
        print(f"   {k:14s} {stats[(k, 'compared')]:7d} / {stats[(k, 'skipped')]:7d}")
    sys.exit(1 if ndiv else 0)


if __name__ == "__main__":
    main()
