"""Per-property registry used by bin/check: theorem lists, generator profiles, spec relations."""
import re
import os

TRUSTED_BASE = [
    "Lean 4.33 kernel (thorough tier: re-checked by leanchecker); axioms allowed: propext, Classical.choice, Quot.sound",
    "no sorry/admit/axiom/native_decide/bv_decide/implemented_by/unsafe (grep of lean/H2V on every run)",
    "tools/extract.py (translator: tables and constants regenerated from /repo/src on every run)",
    "correspondence check: harness/ (real code, hook feature on) vs lean_exe model driver on the same op scripts; the theorems transfer to the Rust only on behaviours the differential run has seen",
    "H2V/Spec/* (hand-written reading of RFC 9113 / RFC 7541) and spec-data/ (RFC tables copied from python-hpack)",
    "modelled, not verified: bytes, tokio-util framing, http crate validators, slab/indexmap, std::sync, async runtime",
]


def kv(line):
    d = {}
    for w in line.split(" "):
        if "=" in w:
            k, v = w.split("=", 1)
            d[k] = v
    return d


def rel_e2e(op, impl, spec):
    """e2e_run lines: the oracle lives in the harness; the model side does not run them"""
    return None


def rel_equal(op, impl, spec):
    return None if impl == spec else "implementation and reference semantics differ"


# ---------------------------------------------------------------------------------------------- C11

LENIENT_KINDS = ("InvalidUtf8", "InvalidStatusCode", "InvalidPseudoheader")


def rel_dec_block(op, impl, spec):
    i, s = kv(impl), kv(spec)
    if s.get("res") == "err":
        if i.get("res") == "ok":
            return f"accepts a header block that RFC 7541 makes a decoding error ({s.get('reason')})"
        return None
    if i.get("res") == "ok":
        if i.get("fields") != s.get("fields"):
            return "decoded field list differs from the one RFC 7541 assigns to the block"
        if i.get("size") != s.get("size") or i.get("n") != s.get("n"):
            return "dynamic table differs from the RFC 7541 table after the block"
        return None
    kind = i.get("kind", "")
    if kind == "IntegerOverflow":
        return None          # implementation limit on integer size (RFC 7541 5.1)
    if kind in LENIENT_KINDS and s.get("strict") == "0":
        return None          # h2 validates field syntax while decoding; the reference does not
    return f"rejects ({kind}) a header block that RFC 7541 accepts"


def frags_of_block(item, ops):
    """fragments (hex strings) fed since the last dec_newblock before the spec line"""
    idx = item[0]
    fr = []
    j = idx - 1
    while j >= 0 and not ops[j].startswith("dec_newblock"):
        if ops[j].startswith("dec_feed "):
            fr.append(ops[j].split(" ", 1)[1])
        j -= 1
    return list(reversed(fr))


def f1_update_at_fragment_start(item, ops):
    """F1 signature: a later fragment of the block starts with a size-update octet (001xxxxx)"""
    fr = frags_of_block(item, ops)
    for f in fr[1:]:
        if f != "-" and (int(f[:2], 16) & 0xE0) == 0x20:
            return True
    return False


# ---------------------------------------------------------------------------------------------- C10

def mon_c10(ops, impl):
    out = []
    for i, (o, a) in enumerate(zip(ops, impl)):
        w = o.split(" ")
        if w[0] == "enc_new":
            out.append((i, f"mon_enc_new {min(int(w[1]), 4096)}"))   # both ends start from the same table size
        elif w[0] == "enc_max":
            out.append((i, "mon_enc_max " + w[1]))
        elif w[0] == "enc_block" and not a.startswith("err") and a != "panic":
            out.append((i, f"mon_enc_block {w[1]} {a.split(' ')[0]}"))
    return out


def mon_c12(ops, impl):
    """write-side monitor (H2V/Spec/WriteMon.lean) on what the real codec handed to the transport"""
    out = []
    shut_seen = False
    for i, (o, a) in enumerate(zip(ops, impl)):
        w = o.split(" ")
        if w[0] == "wr_new":
            out.append((i, "mon_wr new"))
            shut_seen = False
        elif w[0] == "wr_set_max_frame":
            out.append((i, "mon_wr maxf " + w[1]))
        elif w[0] == "wr_buffer" and a == "ok":
            out.append((i, "mon_wr item"))
        elif w[0] in ("wr_ready", "wr_flush", "wr_shutdown"):
            h = _f(a, "out=")
            if h not in ("-", ""):
                out.append((i, "mon_wr out " + h))
            if _f(a, "shut=") == "1" and not shut_seen:
                shut_seen = True
                out.append((i, "mon_wr shut"))
    return out


# ---------------------------------------------------------------------------------------------- connection level

def _f(ans, key):
    for w in ans.split(" "):
        if w.startswith(key):
            return w[len(key):]
    return "-"


# ops that change what the transport offers (the transport's own waker wakes the connection task) or that poll the
# connection themselves
INPUT_OPS = ("cn_peer", "cn_eof", "cn_rderr", "cn_wrerr", "cn_budget", "cn_iws", "cn_target", "cn_accept", "cn_new", "cn_graceful", "cn_abrupt",
             "cn_dropconn", "cn_takeping")


# operations on the handles of a stream (the ping handle is not one: it reports BrokenPipe by design)
STREAM_HANDLE_OPS = ("cn_resp", "cn_read", "cn_rtrailers", "cn_pollcap", "cn_pollreset", "cn_info", "cn_data", "cn_pollpushed")
AFTER_END_OPS = ("cn_resp", "cn_read", "cn_rtrailers", "cn_pollcap", "cn_pollreset", "cn_ready", "cn_pollpong", "cn_info", "cn_pollpushed")


# the waker slot (digest flag) each pollable handle operation parks its task in
PENDING_SLOT = {"cn_pollcap": "t", "cn_pollreset": "t", "cn_resp": "u", "cn_read": "u", "cn_rtrailers": "u", "cn_info": "u",
                "cn_pollpushed": "q"}


def mon_conn(ops, impl):
    """monitor script for the wire-level reference monitors (H2V/Spec/Wire.lean) from a trace of the real connection"""
    out = []
    slots = []       # slot index -> stream id
    budget_open = True
    alive = False
    role, reset_max = "client", "-"
    last_st, last_op_was_input = "", True
    held = {}
    woken_since_poll, input_since_poll, parked = False, True, False
    gone, gone_st, last_st_before = False, "", ""
    peer_goaway, result_seen = "-", False
    cap_wait, sendbuf = {}, 409600
    io_raised = []
    submitted, sent, given_up = {}, {}, set()
    recv_dropped = set()
    goaway_unread = []      # [octets queued after it, error code] of the peer's GOAWAYs not decoded yet
    transport_event, ended_now = False, False
    last_poll = None
    for i, (o, a) in enumerate(zip(ops, impl)):
        w = o.split(" ")
        if w[0] == "cn_new":
            out.append((i, "mon_cn new " + w[1]))
            for kv in w[2:]:
                if kv.startswith("cws="):
                    out.append((i, "mon_cn target " + kv[4:]))
            if w[1] == "server":
                out.append((i, "mon_cn rx S:0:0:-"))     # the peer's first SETTINGS is fed by cn_new itself
            slots = []
            held = {}
            woken_since_poll, input_since_poll, parked = False, True, False
            gone = False
            peer_goaway, result_seen = "-", False
            cap_wait, sendbuf = {}, 409600
            io_raised = []
            submitted, sent, given_up = {}, {}, set()
            recv_dropped = set()
            goaway_unread = []
            transport_event = False
            last_poll = None
            for kv in w[2:]:
                if kv.startswith("sendbuf="):
                    sendbuf = int(kv[8:])
            budget_open = True
            alive = True
            role = w[1]
            reset_max = "-"
            for kv in w[2:]:
                if kv.startswith("reset_max="):
                    reset_max = kv[10:]
        # C17: a handle that reports an I/O error reports the kind the transport raised
        # (a read error is met by the next poll; a write error only if something is written: take it from the poll's result)
        # (an error injected after the connection future has completed is never met by anybody)
        if w[0] == "cn_rderr" and len(w) > 1 and not result_seen:
            io_raised.append(w[1] if w[1] in ("BrokenPipe", "ConnectionReset", "UnexpectedEof", "TimedOut") else "Other")
        if w[0] == "cn_poll" and _f(a, "r=").startswith("err:io:Some("):
            io_raised.append(_f(a, "r=")[12:-1])
        if w[0].startswith("cn_") and w[0] in STREAM_HANDLE_OPS and _f(a, "r=").startswith("err:io:Some("):
            out.append((i, f"mon_cn ioerr {','.join(io_raised) if io_raised else '-'} {_f(a, 'r=')[12:-1]}"))
        # C17: a handle that reports a GOAWAY of the peer reports the code of the frame that refused its stream
        if w[0] in STREAM_HANDLE_OPS and len(w) > 1 and w[1].isdigit() and int(w[1]) < len(slots):
            rr = _f(a, "r=").split(":")
            if len(rr) >= 4 and rr[0] == "err" and rr[1] == "goaway" and rr[3] == "remote" and rr[2].isdigit():
                out.append((i, f"mon_cn goawaycode {slots[int(w[1])]} {rr[2]}"))
        if w[0].startswith("cn_") and gone and w[0] in AFTER_END_OPS:
            # C07: the connection object has been dropped; nothing may stay pending
            # (with the state the stream was in when the connection object was dropped)
            sstate = "-"
            if len(w) > 1 and w[1].isdigit() and int(w[1]) < len(slots):
                # (known finding Q1 can leave a second, handle-less entry with the same stream id: the handle's own
                #  entry is the one that is referenced)
                cands = [seg.split(":", 1)[1].split(",") for seg in gone_st.split("|") if seg.startswith(f"S{slots[int(w[1])]}:")]
                held_ones = [f for f in cands if len(f) > 8 and f[8].isdigit() and int(f[8]) > 0]
                if held_ones or cands:
                    sstate = (held_ones or cands)[0][0]
            out.append((i, f"mon_cn afterend {w[0]} {_f(a, 'r=').split(':')[0]} {sstate}"))
        if not w[0].startswith("cn_") or not alive:
            continue
        if a.strip() == "panic":
            out.append((i, "mon_cn panic"))
            alive = False
            continue
        r = _f(a, "r=")
        st = _f(a, "st=")
        if w[0] == "cn_poll" and r == "pending":
            # C08: did the connection task wake itself, and did the poll do anything?
            selfw = "c" in _f(a, "wk=").split(",")
            progress = _f(a, "tx=") != "-" or st != last_st or last_op_was_input
            out.append((i, f"mon_cn polled {int(selfw)} {int(progress)}"))
        # C16: a task told to wait by poll_capacity hears about new capacity
        wkset = _f(a, "wk=").split(",")
        for k in list(cap_wait):
            if f"s{k}" in wkset:
                del cap_wait[k]
        if st not in ("-", "gone", ""):
            caps = {}
            for seg in st.split("|"):
                if seg.startswith("S") and not seg.startswith("SB:"):
                    f = seg.split(":", 1)[1].split(",")
                    try:
                        caps[int(seg[1:].split(":")[0])] = max(0, min(int(f[2]), sendbuf) - int(f[4]))
                    except ValueError:
                        pass
            for k, c0 in list(cap_wait.items()):
                if k < len(slots) and slots[k] in caps:
                    out.append((i, f"mon_capwait {c0} {caps[slots[k]]} 0"))
                    if caps[slots[k]] > c0:
                        del cap_wait[k]
            if w[0] == "cn_pollcap" and r == "pending" and w[1].isdigit() and int(w[1]) < len(slots) and slots[int(w[1])] in caps:
                cap_wait[int(w[1])] = caps[slots[int(w[1])]]
        if w[0] in ("cn_pollcap", "cn_pollreset") and r != "pending" and len(w) > 1 and w[1].isdigit():
            cap_wait.pop(int(w[1]), None)      # polled again and answered: the wait is over
        if w[0] in ("cn_drop", "cn_reset") and len(w) > 1 and w[1].isdigit():
            cap_wait.pop(int(w[1]), None)
        # C06/C16: a poll that tells its task to wait has registered that task's waker on the stream
        if r == "pending" and w[0] in PENDING_SLOT and len(w) > 1 and w[1].isdigit() and int(w[1]) < len(slots) \
                and st not in ("-", "gone", ""):
            segs = [seg.split(":", 1)[1].split(",") for seg in st.split("|") if seg.startswith(f"S{slots[int(w[1])]}:")]
            if segs:
                reg = any(PENDING_SLOT[w[0]] in f[-1] for f in segs)
                out.append((i, f"mon_cn pendreg {w[0]} {int(reg)}"))
        # C15: how the connection future completes vs the peer's last GOAWAY
        # (a GOAWAY counts once the endpoint has decoded it: the digest's U: segment is the number of queued octets
        #  not decoded yet; a GOAWAY still unread when the endpoint closes for reasons of its own cannot be reported)
        if w[0] == "cn_peer":
            nbytes = len(w[1]) // 2 if len(w) > 1 else 0
            for g in goaway_unread:
                g[0] += nbytes
            for f in (_f(a, "rx=").split(";") if _f(a, "rx=") != "-" else []):
                if f.startswith("G:"):
                    goaway_unread.append([0, f.split(":")[3]])
        useg = [seg[2:] for seg in st.split("|") if seg.startswith("U:")] if st not in ("-", "gone", "") else []
        if useg and useg[0].isdigit():
            while goaway_unread and int(useg[0]) <= goaway_unread[0][0]:
                peer_goaway = (peer_goaway + "," if peer_goaway != "-" else "") + goaway_unread.pop(0)[1]
        if w[0] == "cn_poll" and not result_seen and (r == "done" or r.startswith("err:")):
            result_seen = True
            p = r.split(":")
            kind = "done" if r == "done" else ("goaway-remote" if len(p) >= 4 and p[1] == "goaway" and p[3] == "remote" else "other")
            out.append((i, f"mon_cn connresult {peer_goaway} {kind} {p[2] if kind == 'goaway-remote' else 0}"))
            ended_now = True
        # C06: a poll nobody asked for must find nothing to write
        if "c" in _f(a, "wk=").split(",") and w[0] != "cn_poll":
            woken_since_poll = True
        if w[0] in ("cn_eof", "cn_rderr", "cn_wrerr"):
            transport_event = True
        if w[0] in INPUT_OPS:
            input_since_poll = True
        if w[0] == "cn_poll":
            out.append((i, f"mon_cn pollwork {int(parked)} {int(woken_since_poll)} {int(input_since_poll)} {int(_f(a, 'tx=') != '-')}"))
            parked = r == "pending"
            # a wake-up fired DURING the poll (the task re-arms itself) counts for the next one
            woken_since_poll = "c" in _f(a, "wk=").split(",")
            input_since_poll = False
        last_op_was_input = w[0] != "cn_poll"
        last_st = st
        if st not in ("-", "gone", ""):
            last_st_before = st
        if st not in ("-", "gone", ""):
            out.append((i, f"mon_st {role} {reset_max} {st}"))
            # C06: a task parked in poll_pushed waits for "a push or the end of the stream": it is not parked any more
            # once the receive side has ended
            for seg in st.split("|"):
                if seg.startswith("S") and not seg.startswith("SB:"):
                    f = seg.split(":", 1)[1].split(",")
                    # (a waker left behind by a handle that is gone — no reference to the stream is left — waits for nothing)
                    if "q" in f[-1] and (f[0].startswith("Closed") or f[0].startswith("HalfClosedRemote")) \
                            and len(f) > 8 and f[8].isdigit() and int(f[8]) > 0:
                        out.append((i, f"mon_cn parkedpush {f[0]}"))
        if w[0] == "cn_peer":
            rx = _f(a, "rx=")
            cbh = _f(a, "cbh=")
            if cbh != "-":
                for x in cbh.split(","):
                    out.append((i, "mon_cn exempt_open " + x))
            if rx != "-":
                for f in rx.split(";"):
                    out.append((i, "mon_cn rx " + f))
        if w[0] in ("cn_req", "cn_reqc", "cn_accept", "cn_pollpushed", "cn_pushk") and r.startswith("ok:"):
            p = r.split(":")
            slots.append(int(p[2]))
            if w[0] == "cn_accept":
                held[int(p[2])] = 0           # the server's RecvStream comes with the request
        if w[0] == "cn_resp" and r.startswith("ok:") and int(w[1]) < len(slots):
            held[slots[int(w[1])]] = 0        # the client's RecvStream comes with the response
        # C03: octets handed to the application and not released yet, per stream with a live receive handle
        if w[0] in ("cn_read", "cn_release", "cn_drop") and len(w) > 1 and w[1].isdigit() and int(w[1]) < len(slots):
            sid = slots[int(w[1])]
            if w[0] == "cn_read" and r.startswith("data:") and sid in held:
                held[sid] += int(r.split(":")[1])
            elif w[0] == "cn_release" and r == "ok" and sid in held:
                held[sid] -= int(w[2])
            elif w[0] == "cn_drop" and w[2] in ("body", "all", "fc"):
                held.pop(sid, None)           # the handle is gone (or shared): stop tracking
                if w[2] != "fc":
                    recv_dropped.add(sid)
            if sid in held and held[sid] >= 0 and st not in ("-", "gone", ""):
                out.append((i, f"mon_held {sid} {held[sid]} {st}"))
        if w[0] == "cn_keepfc" and len(w) > 1 and w[1].isdigit() and int(w[1]) < len(slots):
            held.pop(slots[int(w[1])], None)
        if w[0] == "cn_reset" and r == "ok" and int(w[1]) < len(slots):
            out.append((i, f"mon_cn reset {slots[int(w[1])]} {_f(a, 'cb=') if _f(a, 'cb=') != '-' else 0}"))
        if w[0] == "cn_target":
            out.append((i, "mon_cn target " + w[1]))
        if w[0] == "cn_note" and len(w) == 4 and w[1] == "c09":
            out.append((i, "mon_cn verdict" if w[2] == "verdict" else ("mon_cn probe" if w[2] == "probe" else f"mon_cn expect {w[2]} {w[3]}")))
        # C13: what the receive API handed to the application
        if w[0] in ("cn_resp", "cn_accept") and r.startswith("ok:"):
            sid = slots[int(w[1])] if w[0] == "cn_resp" and int(w[1]) < len(slots) else (slots[-1] if slots else 0)
            out.append((i, f"mon_cn delivered {sid} head"))
        if w[0] == "cn_rtrailers" and r.startswith("trailers:") and int(w[1]) < len(slots):
            out.append((i, f"mon_cn delivered {slots[int(w[1])]} trailers"))
        if w[0] == "cn_read" and r == "none" and int(w[1]) < len(slots):
            out.append((i, f"mon_cn delivered {slots[int(w[1])]} end"))
        if w[0] == "cn_budget":
            budget_open = w[1] == "inf"
        # C01, send side: octets accepted by send_data per stream vs octets of DATA written when END_STREAM goes out
        if w[0] == "cn_data" and r == "ok" and w[1].isdigit() and int(w[1]) < len(slots):
            submitted[slots[int(w[1])]] = submitted.get(slots[int(w[1])], 0) + int(w[2])
        if (w[0] == "cn_reset" or (w[0] == "cn_drop" and len(w) > 2 and w[2] in ("send", "all", "responder"))) \
                and len(w) > 1 and w[1].isdigit() and int(w[1]) < len(slots):
            submitted.pop(slots[int(w[1])], None)     # what is queued may be discarded from here on
            given_up.add(slots[int(w[1])])
        tx = _f(a, "tx=")
        if tx != "-":
            for f in tx.split(";"):
                out.append((i, "mon_cn tx " + f))
                p = f.split(":")
                if p[0] == "D" and len(p) >= 4:
                    sd = int(p[1])
                    sent[sd] = sent.get(sd, 0) + int(p[3])
                    if int(p[2]) & 1 and sd in submitted and sd not in given_up:
                        out.append((i, f"mon_cn bodyend {submitted[sd]} {sent[sd]}"))
                        submitted.pop(sd, None)
                elif p[0] == "R" and len(p) >= 2:
                    submitted.pop(int(p[1]), None)
        if ended_now:
            # C15: a connection that ends of its own accord (no transport failure or EOF) has said GOAWAY first
            # (judged after the frames this very poll wrote)
            ended_now = False
            out.append((i, f"mon_cn ended {int(transport_event)}"))
        # C06: at a drained, quiescent point no live stream with buffered DATA and window is left unscheduled
        if w[0] == "cn_io" and budget_open and "unparsed=0" in r and ":rd=0:" in r and last_poll == ("pending", "-") \
                and any(seg.startswith("K:Open") for seg in last_st_before.split("|")):
            cseg = [seg for seg in last_st_before.split("|") if seg.startswith("C:")]
            cf = cseg[0][2:].split(",") if cseg else []
            if len(cf) >= 2 and cf[1].lstrip("-").isdigit():
                for seg in last_st_before.split("|"):
                    if seg.startswith("S") and not seg.startswith("SB:"):
                        f = seg.split(":", 1)[1].split(",")
                        if len(f) >= 10 and not f[0].startswith("Closed") and all(x.lstrip("-").isdigit() for x in (f[1], f[2], f[4])):
                            out.append((i, f"mon_stalled {cf[1]} {f[1]} {f[2]} {f[4]} {int('o' in f[-1] or 'p' in f[-1])}"))
        if w[0] == "cn_poll":
            last_poll = (r, _f(a, "tx="))
        elif w[0] != "cn_io":
            last_poll = None
        if w[0] == "cn_io" and budget_open and "unparsed=0" in r:
            cseg = [seg for seg in last_st_before.split("|") if seg.startswith("C:")]
            cf = cseg[0][2:].split(",") if cseg else []
            conn_ok = any(seg.startswith("K:Open,0,") for seg in last_st_before.split("|")) and ":rd=0:" in r
            if len(cf) >= 3 and cf[0].lstrip("-").isdigit() and cf[2].lstrip("-").isdigit() and conn_ok:
                out.append((i, f"mon_cn quiescent {cf[2]} {cf[0]}"))
                for seg in last_st_before.split("|"):
                    if seg.startswith("S") and not seg.startswith("SB:"):
                        f = seg.split(":", 1)[1].split(",")
                        sid = seg[1:].split(":")[0]
                        if len(f) >= 6 and f[1].lstrip("-").isdigit() and f[5].lstrip("-").isdigit() and not f[0].startswith("Closed") \
                                and last_st_before.count(f"|S{sid}:") == 1:
                            out.append((i, f"mon_cn quiescent_stream {sid} {f[5]} {f[1]} {int(int(sid) not in recv_dropped)}"))
            else:
                out.append((i, "mon_cn quiescent"))
        if w[0] == "cn_dropconn":
            alive = False
            gone = True
            gone_st = last_st_before
    return out


CONN_BASE = {
    "relations": {},
    "monitor": mon_conn,
    "monitor_tagged": True,
    "conn_compare": True,
    "history_starts": ("cn_new",),
    "corpus": ["conn"],
}


def conn_prop(lean_targets, theorems, profiles, **kw):
    d = dict(CONN_BASE)
    d.update({"lean_targets": lean_targets, "theorems": theorems, "profiles": profiles})
    d.update(kw)
    return d


def nontrivial(prop, op, ans):
    return ans not in ("ok", "bad-op", "")


def e2e_monitor(prop):
    """the harness's own oracle: a FAIL line is a violation of the property named in it"""
    def mon(ops, impl):
        return []
    return mon


PROPS = {
    "C01": {
        "lean_targets": ["H2V.Props.C01"],
        "theorems": [
            ("H2V.Props.C01", "H2V.Props.C01.writer_bytes_exact"),
            ("H2V.Props.C01", "H2V.Props.C01.reader_chunk_invariance"),
            ("H2V.Props.C01", "H2V.Props.C01.frames_survive_any_chunking"),
            ("H2V.Props.C01", "H2V.Props.C01.heads_survive_hpack"),
            ("H2V.Props.C01", "H2V.Props.C01.heads_survive_fragmentation"),
        ],
        "profiles": [
            {"name": "e2e-plain", "quick": 150, "thorough": 3000, "shards": {"quick": 1, "thorough": 8}},
            {"name": "e2e-chaos", "quick": 150, "thorough": 3000, "shards": {"quick": 1, "thorough": 8}},
        ],
        "relations": {},
        "impl_only_prefixes": ("e2e_",),
        "impl_fail_tags": ("C01",),
        "history_starts": ("e2e_run",),
        "partial": "codec-level chain proved for all inputs/chunkings; the stream-layer ordering is tied by the two-endpoint runs (oracle in the harness: every byte checked per (stream, offset)) and the connection model",
        "assumptions": ["http crate conversions (Request/Response <-> pseudo + HeaderMap) are exercised end to end only"],
    },
    "C20": {
        "lean_targets": ["H2V.Props.C20"],
        "theorems": [
            ("H2V.Props.C20", "H2V.Props.C20.ping_never_lost"),
            ("H2V.Props.C20", "H2V.Props.C20.pong_never_lost"),
            ("H2V.Props.C20", "H2V.Props.C20.ping_lost_if_load_before_register"),
            ("H2V.Props.C20", "H2V.Props.C20.pong_lost_if_wake_before_cas"),
            ("H2V.Props.C20", "H2V.Props.C20.lock_order_acyclic"),
            ("H2V.Props.C20", "H2V.Props.C20.no_transport_progress_under_streams_lock"),
            ("H2V.Props.C20", "H2V.Props.C20.user_extensions_dropped_before_the_lock"),
        ],
        "parallel": 3,
        "profiles": [
            {"name": "threads", "quick": 40, "thorough": 1500, "shards": {"quick": 1, "thorough": 4}},
        ],
        "relations": {},
        "impl_only_prefixes": ("thr_",),
        "impl_fail_tags": ("C20", "C01", "C14", "C16"),
        "history_starts": ("thr_run",),
        "partial": "proved: every interleaving of the lock-free user-ping hand-shake (step order read from the source) and acyclic lock order (acquisition sequences read from the source); the linearizability of mutex-protected handle operations is by construction (one critical section each) and is exercised, not proved, by real multi-threaded runs with a watchdog",
        "assumptions": ["std::sync::Mutex, AtomicUsize (SeqCst-like atomicity of each step), AtomicWaker semantics", "mutex poisoning by foreign panics and compiler/CPU memory-model effects are outside the model"],
    },
    "C12": {
        "monitor": mon_c12,
        "lean_targets": ["H2V.Props.C12"],
        "theorems": [
            ("H2V.Props.C12", "H2V.Props.C12.head_roundtrip"),
            ("H2V.Props.C12", "H2V.Props.C12.parse_serialize_data"),
            ("H2V.Props.C12", "H2V.Props.C12.parse_serialize_ping"),
            ("H2V.Props.C12", "H2V.Props.C12.parse_serialize_header_block"),
            ("H2V.Props.C12", "H2V.Props.C12.reader_chunk_invariance"),
            ("H2V.Props.C12", "H2V.Props.C12.decode_agrees_with_rfc"),
            ("H2V.Props.C12", "H2V.Props.C12.writer_bytes_exact"),
            ("H2V.Props.C12", "H2V.Props.C12.closing_drops_nothing"),
            ("H2V.Props.C12", "H2V.Props.C12.tx_within_max_frame_size"),
            ("H2V.Props.C12", "H2V.Props.C12.rx_oversize_rejected"),
            ("H2V.Props.C12", "H2V.Props.C12.wire_roundtrip_any_chunking"),
        ],
        "profiles": [
            {"name": "codecread", "quick": 250, "thorough": 3000, "shards": {"quick": 1, "thorough": 6}},
            {"name": "codecwrite", "quick": 30, "thorough": 200, "shards": {"quick": 6, "thorough": 16}},
        ],
        "relations": {"spec_rd_all": rel_equal},
        "history_starts": ("rd_new", "wr_new"),
        "partial": "tokio-util LengthDelimitedCodec and BytesMut growth are modelled, not verified",
        "assumptions": ["tokio-util length-delimited reassembler modelled (H2V/Model/CodecRead.lean Reader.drain)",
                        "BytesMut capacity growth modelled by Vec doubling (only has_capacity depends on it)"],
    },
    "C10": {
        "lean_targets": ["H2V.Props.C10"],
        "theorems": [
            ("H2V.Props.C10", "H2V.Props.C10.index_static_sound"),
            ("H2V.Props.C10", "H2V.Props.C10.roundtrip_history"),
            ("H2V.Props.C10", "H2V.Props.C10.table_bounded"),
            ("H2V.Props.C10", "H2V.Props.C10.table_bounded_block_end"),
            ("H2V.Props.C10", "H2V.Props.C10.reduction_signalled_first"),
            ("H2V.Props.C10", "H2V.Props.C10.own_decoder_reads_back_the_submitted_fields"),
            ("H2V.Props.C10", "H2V.Props.C10.own_decoder_lockstep_history"),
            ("H2V.Props.C10", "H2V.Props.C10.block_cut_by_the_writer_reads_back"),
        ],
        "profiles": [
            {"name": "hpackenc", "quick": 700, "thorough": 8000, "shards": {"quick": 1, "thorough": 6}},
        ],
        "relations": {},
        "monitor": mon_c10,
        "history_starts": ("enc_new",),
        "partial": "the concrete robin-hood index of hpack/table.rs is covered by the byte-exact differential only; the theorems are about the abstract (list) encoder",
        "assumptions": ["hash index of hpack/table.rs abstracted to a list (byte-exact correspondence checked on every run)"],
    },
    "C11": {
        "lean_targets": ["H2V.Props.C11"],
        "theorems": [
            ("H2V.Props.C11", "H2V.Props.C11.huffman_tables_are_rfc"),
            ("H2V.Props.C11", "H2V.Props.C11.static_table_is_rfc"),
            ("H2V.Props.C11", "H2V.Props.C11.huffman_decode_is_canonical"),
            ("H2V.Props.C11", "H2V.Props.C11.huffman_roundtrip"),
            ("H2V.Props.C11", "H2V.Props.C11.huffman_encode_is_canonical"),
            ("H2V.Props.C11", "H2V.Props.C11.huffman_leaf_progress"),
            ("H2V.Props.C11", "H2V.Props.C11.decode_sound"),
            ("H2V.Props.C11", "H2V.Props.C11.rfc_error_rejected"),
            ("H2V.Props.C11", "H2V.Props.C11.split_invariance"),
            ("H2V.Props.C11", "H2V.Props.C11.fragments_decode_sound"),
            ("H2V.Props.C11", "H2V.Props.C11.fragments_rfc_error_rejected"),
            ("H2V.Props.C11", "H2V.Props.C11.history_of_fragmented_blocks_sound"),
            ("H2V.Props.C11", "H2V.Props.C11.queue_size_update_refines"),
            ("H2V.Props.C11", "H2V.Props.C11.history_with_size_updates_sound"),
            ("H2V.Props.C11", "H2V.Props.C11.table_within_limit"),
            ("H2V.Props.C11", "H2V.Props.C11.decode_never_panics"),
            ("H2V.Props.C11", "H2V.Props.C11.int_sound_and_bounded"),
            ("H2V.Props.C11", "H2V.Props.C11.int_roundtrip"),
        ],
        "profiles": [
            {"name": "huffman", "quick": 1500, "thorough": 40000},
            {"name": "hpackint", "quick": 1500, "thorough": 40000},
            {"name": "hpackdec", "quick": 1200, "thorough": 12000, "shards": {"quick": 1, "thorough": 4}},
            {"name": "hpackdec-allsplits", "quick": 150, "thorough": 3000},
            {"name": "huffman-exhaustive", "quick": 0, "thorough": 1},
        ],
        "relations": {"spec_dec_block": rel_dec_block, "spec_huff_dec": rel_equal},
        "history_starts": ("dec_new", "spec_dec_new"),
        "unit_start": ("dec_newblock",),
        "unit_end": ("spec_dec_block",),
        "partial": "",
        "assumptions": [
            "field-syntax validators of the http crate are modelled (H2V/Model/HttpTypes.lean), validated by the differential run only",
        ],
    },
}


# ---------------------------------------------------------------------------------------------- connection-level properties
# One generated history serves all of them: the real connection is driven op by op (harness/src/conn.rs), the Lean
# connection model (h2vconn, H2V/Model/Conn*.lean) answers the same ops (correspondence), and the RFC-level wire
# monitors (H2V/Spec/Wire.lean, Http.lean, Verdict.lean) judge the real trace; each monitor rule carries the id of the
# property it belongs to, a property's check keeps its own.

def _load_theorems(pid):
    """theorem lists written next to the agent-proved property files (H2V/Props/<pid>.theorems.json)"""
    import json as _json
    path = os.path.join(os.path.dirname(os.path.abspath(__file__)), "..", "lean", "H2V", "Props", pid + ".theorems.json")
    if not os.path.exists(path):
        return []
    return [("H2V.Props." + pid, t) for t in _json.load(open(path))]


CONN_PROFILES = [
    {"name": "conn-client-flow", "quick": 70, "thorough": 500, "shards": {"quick": 2, "thorough": 10}},
    {"name": "conn-client", "quick": 70, "thorough": 500, "shards": {"quick": 2, "thorough": 10}},
    {"name": "conn-server", "quick": 70, "thorough": 500, "shards": {"quick": 2, "thorough": 10}},
    {"name": "conn-c09-client", "quick": 80, "thorough": 1500, "shards": {"quick": 2, "thorough": 4}},
    {"name": "conn-c09-server", "quick": 80, "thorough": 1500, "shards": {"quick": 2, "thorough": 4}},
]

CONN_ASSUMPTIONS = [
    "the connection model H2V/Model/Conn*.lean is hand-written; it is tied to the code by the op-by-op comparison of every "
    "answer field (result, frames written, wake-ups, state digest) on the generated histories of this run",
    "the state digest is computed by the harness from the Debug rendering of the real structures (hook feature hyperium_h2_verif)",
    "wire monitors see the peer's frames when they are queued to the transport, with explicit exemptions for frames already "
    "inside the codec (cb=, cbh=)",
]


def _cb(ths):
    return [("H2V.Props.CompBase", "H2V.Props.CompBase." + t) for t in ths]


PROPS["C02"] = conn_prop(
    ["H2V.Props.CompBase"] + (["H2V.Props.C02"] if _load_theorems("C02") else []),
    _cb(["C02.send_data_within_window", "C02.window_ledger", "C02.window_never_above_max"]) + _load_theorems("C02"),
    CONN_PROFILES, assumptions=CONN_ASSUMPTIONS)
PROPS["C03"] = conn_prop(
    ["H2V.Props.CompBase"] + (["H2V.Props.C03"] if _load_theorems("C03") else []),
    _cb(["C03.inc_window_exact", "C03.available_ledger", "C02.window_never_above_max"]) + _load_theorems("C03"),
    CONN_PROFILES, assumptions=CONN_ASSUMPTIONS)
PROPS["C04"] = conn_prop(
    ["H2V.Props.CompBase"] + (["H2V.Props.C04"] if _load_theorems("C04") else []),
    _cb(["C04.state_machine_refines_rfc"]) + _load_theorems("C04"),
    CONN_PROFILES, assumptions=CONN_ASSUMPTIONS)
PROPS["C05"] = conn_prop(
    ["H2V.Props.CompBase"] + (["H2V.Props.C05"] if _load_theorems("C05") else []),
    _cb(["C05.can_inc_iff", "C05.apply_remote_settings"]) + _load_theorems("C05"),
    CONN_PROFILES, assumptions=CONN_ASSUMPTIONS)
PROPS["C16"] = conn_prop(
    ["H2V.Props.CompBase"] + (["H2V.Props.C16"] if _load_theorems("C16") else []),
    _cb(["C16.assign_claim_exact", "C02.send_data_within_window", "C02.window_ledger"]) + _load_theorems("C16"),
    CONN_PROFILES, assumptions=CONN_ASSUMPTIONS)
PROPS["C18"] = conn_prop(
    ["H2V.Props.CompBase"] + (["H2V.Props.C18"] if _load_theorems("C18") else []),
    _cb(["C18.reset_quota", "C18.local_error_reset_quota", "C18.tiny_data_costs"]) + _load_theorems("C18"),
    CONN_PROFILES, assumptions=CONN_ASSUMPTIONS)


def _conn_claim(pid, base_thms=()):
    """a connection-level property: agent-proved theorems (H2V/Props/<pid>.lean) + shared component theorems"""
    ths = _load_theorems(pid)
    targets = (["H2V.Props.CompBase"] if base_thms else []) + (["H2V.Props." + pid] if ths else [])
    return conn_prop(targets, _cb(list(base_thms)) + ths, CONN_PROFILES, assumptions=CONN_ASSUMPTIONS)


E2E_PROGRESS = [
    {"name": "e2e-plain", "quick": 120, "thorough": 3000, "shards": {"quick": 1, "thorough": 8}},
    {"name": "e2e-chaos", "quick": 120, "thorough": 3000, "shards": {"quick": 1, "thorough": 8}},
]
E2E_ENDING = [
    {"name": "e2e-ending", "quick": 200, "thorough": 4000, "shards": {"quick": 1, "thorough": 8}},
]
# mutated histories (tools/connfuzz.py): hostile / odd peer frames, handle calls the generator never makes,
# transport events, builder options.  Used where the monitors' verdict does not depend on a well-behaved peer.
FUZZ = [
    {"name": "conn-client", "label": "fuzz-conn-client", "quick": 80, "thorough": 500, "shards": {"quick": 1, "thorough": 8},
     "mutate": {"rate": 0.15, "kinds": ["peer", "user", "io", "cfg"]}},
    {"name": "conn-server", "label": "fuzz-conn-server", "quick": 80, "thorough": 500, "shards": {"quick": 1, "thorough": 8},
     "mutate": {"rate": 0.15, "kinds": ["peer", "user", "io", "cfg"]}},
    {"name": "conn-client-flow", "label": "fuzz-conn-client-flow", "quick": 60, "thorough": 400, "shards": {"quick": 1, "thorough": 8},
     "mutate": {"rate": 0.1, "kinds": ["peer", "user", "io"]}},
]
CONN_EXTRA = {
    "C06": {"profiles": CONN_PROFILES + E2E_PROGRESS, "impl_only_prefixes": ("e2e_",), "impl_fail_tags": ("C06",),
            "history_starts": ("cn_new", "e2e_run")},
    "C07": {"profiles": CONN_PROFILES + E2E_ENDING, "impl_only_prefixes": ("e2e_",), "impl_fail_tags": ("C07",),
            "history_starts": ("cn_new", "e2e_run")},
    "C08": {"profiles": CONN_PROFILES + FUZZ + [{"name": "server-preface", "quick": 2000, "thorough": 200000, "shards": {"quick": 1, "thorough": 8}}] + E2E_PROGRESS,
            "impl_only_prefixes": ("hs_", "e2e_"), "impl_fail_tags": ("C08",), "history_starts": ("cn_new", "hs_run", "e2e_run")},
    # the two-endpoint runs end with every handle dropped: the idle client must close by itself (C19); poll_capacity never Ready(0) (C16)
    "C19": {"profiles": CONN_PROFILES + E2E_PROGRESS, "impl_only_prefixes": ("e2e_",), "impl_fail_tags": ("C19",),
            "history_starts": ("cn_new", "e2e_run")},
}
CONN_BASE_THMS = {
    "C17": [],
}

for _pid in ("C06", "C07", "C08", "C09", "C13", "C14", "C15", "C17", "C19"):
    if _load_theorems(_pid):
        PROPS[_pid] = _conn_claim(_pid, CONN_BASE_THMS.get(_pid, ()))
        PROPS[_pid].update(CONN_EXTRA.get(_pid, {}))

# C09: the framing-level half (which byte sequences are frame errors) is proved in the codec layer (C12's theorems
# about the reader); the state-dependent half comes with H2V/Props/C09.lean
_c09_codec = [("H2V.Props.C12", "H2V.Props.C12.rx_oversize_rejected"), ("H2V.Props.C12", "H2V.Props.C12.decode_agrees_with_rfc"),
              ("H2V.Props.C12", "H2V.Props.C12.reader_chunk_invariance")]
if "C09" in PROPS:
    PROPS["C09"]["theorems"] = _c09_codec + PROPS["C09"]["theorems"]
    PROPS["C09"]["lean_targets"] = ["H2V.Props.C12"] + PROPS["C09"]["lean_targets"]
else:
    PROPS["C09"] = conn_prop(["H2V.Props.C12"], _c09_codec, CONN_PROFILES, assumptions=CONN_ASSUMPTIONS)
C09_PROFILES = [dict(p, quick=(250 if "c09" in p["name"] else 40)) for p in CONN_PROFILES]
PROPS["C09"]["profiles"] = C09_PROFILES

# C08, pure layers: the decoders are total and terminate on every byte string (theorems of C11/C12); the connection-level
# half (recorded assert/unwrap sites, loop fuel) comes with H2V/Props/C08.lean
_c08_pure = [("H2V.Props.C11", "H2V.Props.C11.decode_never_panics"), ("H2V.Props.C11", "H2V.Props.C11.huffman_leaf_progress"),
             ("H2V.Props.C12", "H2V.Props.C12.reader_chunk_invariance")]
if "C08" in PROPS:
    PROPS["C08"]["theorems"] = _c08_pure + PROPS["C08"]["theorems"]
    PROPS["C08"]["lean_targets"] = ["H2V.Props.C11", "H2V.Props.C12"] + PROPS["C08"]["lean_targets"]
else:
    PROPS["C08"] = conn_prop(["H2V.Props.C11", "H2V.Props.C12"], _c08_pure, CONN_PROFILES, assumptions=CONN_ASSUMPTIONS)
    PROPS["C08"].update(CONN_EXTRA["C08"])

# development aid only (never set by a registered command): evaluate seeded changes against the monitors and the
# correspondence of a property whose theorems are not in yet
for _pid in [x for x in os.environ.get("H2V_DEV_CLAIM", "").split(",") if x]:
    if _pid not in PROPS:
        PROPS[_pid] = conn_prop([], [], CONN_PROFILES, assumptions=CONN_ASSUMPTIONS)
        PROPS[_pid].update(CONN_EXTRA.get(_pid, {}))

PROPS["C16"].update({"profiles": CONN_PROFILES + E2E_PROGRESS, "impl_only_prefixes": ("e2e_",), "impl_fail_tags": ("C16",),
                     "history_starts": ("cn_new", "e2e_run")})


# C11 "however split": where a block is cut is decided by frames, and the resumption of a block across HEADERS / PUSH_PROMISE
# + CONTINUATION lives in codec/framed_read.rs — the codec read tie (real h2::Codec vs model vs RFC frame / HPACK reference)
# belongs to C11's check as well
PROPS["C11"]["profiles"] = PROPS["C11"]["profiles"] + [
    {"name": "codecread", "quick": 250, "thorough": 3000, "shards": {"quick": 1, "thorough": 6}}]
PROPS["C11"]["relations"] = dict(PROPS["C11"]["relations"], spec_rd_all=rel_equal)
PROPS["C11"]["history_starts"] = tuple(PROPS["C11"]["history_starts"]) + ("rd_new",)

# C01 at the stream layer: the connection model (DATA order / ledger theorems in H2V/Props/C01Streams.lean when present)
# tied to the real connection like the other connection-level properties; the codec-chain theorems stay in Props/C01.lean
PROPS["C01"].update({
    "conn_compare": True, "monitor": mon_conn, "monitor_tagged": True,
    "profiles": PROPS["C01"]["profiles"] + CONN_PROFILES + [
        # `heads_survive_hpack` / `heads_survive_fragmentation` are theorems about the HPACK decoder model: its tie to the
        # real decoder (whole blocks and every split into fragments, against the RFC reference) belongs to this check too
        {"name": "hpackdec", "quick": 400, "thorough": 6000, "shards": {"quick": 1, "thorough": 2}},
        {"name": "hpackdec-allsplits", "quick": 150, "thorough": 1500},
    ],
    "relations": {"spec_dec_block": rel_dec_block},
    "unit_start": ("dec_newblock",), "unit_end": ("spec_dec_block",),
    "history_starts": ("e2e_run", "cn_new", "dec_new", "spec_dec_new"),
})
# further theorem files delivered per property. A file is registered by hand, once the proof agent that owns it
# reports a stable green build (files still being worked on must not be able to break a registered check):
# candidates: ("C01", "C01Streams"), ("C08", "C08NoPanic"), ("C06", "C06Drain"), ("C15", "C15Cover"),
#             ("C16", "C16Cover"), ("C09", "C09Cover"), ("C03", "C03Cover")
REGISTERED_EXTRAS = [("C01", "C01Streams"), ("C08", "C08NoPanic"), ("C15", "C15Cover"), ("C06", "C06Drain"), ("C09", "C09Cover"), ("C03", "C03Cover"), ("C16", "C16Cover")]
for _pid, _extra in REGISTERED_EXTRAS:
    if _load_theorems(_extra):
        PROPS[_pid]["theorems"] = PROPS[_pid]["theorems"] + _load_theorems(_extra)
        PROPS[_pid]["lean_targets"] = PROPS[_pid]["lean_targets"] + ["H2V.Props." + _extra]
