#!/usr/bin/env python3
"""Regenerates the detection table of DESIGN.md (between the detection-table markers) from seeded/*/meta.json."""
import json, glob, os
ROOT = os.path.dirname(os.path.dirname(os.path.abspath(__file__)))
rows = ["| seeded change | target | caught by |", "|---|---|---|"]
n = strengthened = corr_only = 0
for d in sorted(glob.glob(os.path.join(ROOT, "seeded", "*", "meta.json"))):
    m = json.load(open(d))
    n += 1
    det = "; ".join(f"**{k}** {v}" for k, v in m["detected_by"].items()).replace("|", "/")
    own = m["detected_by"].get(m["property_targeted"], "")
    if "strengthening" in " ".join(m["detected_by"].values()):
        strengthened += 1
    if "no-failing-input-found" in own and "concrete" not in own.split("before that")[0]:
        corr_only += 1
    rows.append(f"| `{m['id']}` | {m['property_targeted']} | {det} |")
rows.append("| reverting fix F12 | C11 | C11 quick (52 reference violations) |")
rows.append("| reverting fixes F32 + W3 | C06 | C06 quick: `Verdict.parkedPush` push-promise-waiter-still-parked-after-the-stream-ended (concrete input) + model divergence on the wake-up set |")
rows.append("")
rows.append(f"({n} seeded changes stored; {strengthened} were caught only after the machinery was strengthened — what was added is "
            f"named in the row; {corr_only} are reported by their target property through a broken correspondence or theorem only, "
            f"`no-failing-input-found`.)")
p = os.path.join(ROOT, "DESIGN.md")
s = open(p).read()
b, e = "<!-- detection-table-begin -->\n", "<!-- detection-table-end -->\n"
i, j = s.index(b) + len(b), s.index(e)
open(p, "w").write(s[:i] + "\n".join(rows) + "\n" + s[j:])
print(n, strengthened, corr_only)
